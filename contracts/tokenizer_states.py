"""Per-state contracts of the tokenizer (C02): each state method, run once from an arbitrary input and an
arbitrary token under construction, does what the WHATWG tokenization algorithm prescribes for that state,
at the granularity html5lib works at (runs of ordinary characters are consumed in one step).

Relation to the standard's machine (as the property prescribes): character tokens are compared after
concatenation (so "emit X, reconsume in data state" may appear as one step that emits more text), parse
error tokens are ignored, and tag names are lower-cased when the token is emitted.
"""
from pyvc.contract import (contract, requires, ensures, LoopSpec, clause, implies, in_chars, no_chars, is_str,
                           method_name, appended, same_object, is_fresh, is_list, remove_suffix, bounded, is_dict, has_key)
from spec.stream import view
from contracts.stream import abstract_stream

TOK = "html5lib._tokenizer.HTMLTokenizer"
SPACE = ("\t", "\n", "\x0c", " ", "\r")
SPACE_S = "\t\n\x0c \r"
LETTERS = "abcdefghijklmnopqrstuvwxyzABCDEFGHIJKLMNOPQRSTUVWXYZ"
LETTERS_SET = frozenset(LETTERS)
CHARACTERS, SPACECHARS, STARTTAG, ENDTAG, PARSEERROR = 1, 2, 3, 4, 7
COMMENT = 6
DOCTYPE = 0


# ---- inputs ------------------------------------------------------------------------------------------
def tag_token(S, with_attr):
    """the tag token under construction: name so far, attributes so far ([name, value] lists)"""
    ttype = S.one_of(STARTTAG, ENDTAG)
    last = [S.list([S.str("attrname"), S.str("attrvalue")])] if with_attr else []
    d = S.dict({"type": ttype, "name": S.str("tagname"), "data": S.anylist("attrs", tail=last), "selfClosing": False})
    if ttype == STARTTAG:
        d.entries["selfClosingAcknowledged"] = [False, True]
    return d


def tokenizer(S, state, token="tag"):
    t = S.obj(TOK, stream=abstract_stream(S), tokenQueue=S.anylist("tokenQueue", cls="deque"),
              temporaryBuffer=S.str("temporaryBuffer"))
    if token == "tag":
        t.fields["currentToken"] = tag_token(S, False)
    elif token == "attr":
        t.fields["currentToken"] = tag_token(S, True)
    elif token == "any":
        t.fields["currentToken"] = S.one_of(None, lambda: tag_token(S, False))
    elif token == "comment":
        t.fields["currentToken"] = S.dict({"type": COMMENT, "data": S.str("commentdata")})
    t.fields["state"] = S.method(t, state)
    return t


# ---- native (lifted) replay: run the real state method once on the witness ---------------------------
class _NS(object):
    pass


def run_state(i, name):
    from html5lib._tokenizer import HTMLTokenizer
    from collections import deque
    from pyvc.contract import Old, snapshot
    f = i["self"]
    v0 = f["stream"]["ghost_view"]
    t = HTMLTokenizer(v0)
    t.tokenQueue = deque([])
    t.temporaryBuffer = f.get("temporaryBuffer", "")
    t.currentToken = f.get("currentToken")
    o = _NS()
    o.tokenQueue = []
    o.currentToken = snapshot(t.currentToken)
    o.temporaryBuffer = t.temporaryBuffer
    o.stream = _NS()
    o.stream.is_abstract, o.stream.ghost_view = True, v0
    result = getattr(t, name)()
    rest = ""
    while True:
        ch = t.stream.char()
        if ch is None:
            break
        rest += ch
    me = _NS()
    me.state, me.tokenQueue, me.currentToken, me.temporaryBuffer = t.state, list(t.tokenQueue), t.currentToken, t.temporaryBuffer
    me.stream = _NS()
    me.stream.is_abstract, me.stream.ghost_view = True, rest
    i["self"] = me
    i["old"] = Old({"self": o})
    return result


# ---- observation of one step ---------------------------------------------------------------------------
def new_tokens(old, self):
    return appended(old.self.tokenQueue, self.tokenQueue)


def text_of(tokens):
    return "".join([t["data"] for t in tokens if t["type"] == CHARACTERS or t["type"] == SPACECHARS])


def others(tokens):
    return [t for t in tokens if t["type"] != CHARACTERS and t["type"] != SPACECHARS and t["type"] != PARSEERROR]


def step(old, self, state, text, rest):
    """the step ended in `state`, emitted exactly `text` as character data and no other token, and left `rest`"""
    toks = new_tokens(old, self)
    return (method_name(self.state) == state and text_of(toks) == text and len(others(toks)) == 0
            and view(self.stream) == rest)


def token_untouched(old, self):
    return same_object(self.currentToken, old.self.currentToken) and self.currentToken == old.self.currentToken


# ---- 13.2.5.1-5: data, RCDATA, RAWTEXT, script data, PLAINTEXT ----------------------------------------------
def text_state(old, self, result, me, amp_state, lt_state, nul_text):
    """shared shape of the five text states: `me` the state's own name, `amp_state`/`lt_state` where '&'/'<' lead
    (None = not special here), `nul_text` what U+0000 becomes"""
    v = view(old.self.stream)
    if v == "":
        return result is False and len(new_tokens(old, self)) == 0          # end of input: tokenization ends
    if not (result is True and token_untouched(old, self)):
        return False
    c = v[0]
    if amp_state is not None and c == "&":
        return step(old, self, amp_state, "", v[1:])
    if lt_state is not None and c == "<":
        return step(old, self, lt_state, "", v[1:])
    if c == "\u0000":
        return step(old, self, me, nul_text, v[1:])
    # a non-empty run of ordinary characters is emitted as character data (how the run is cut into tokens
    # does not matter: character tokens are compared after concatenation); nothing special is swallowed,
    # and a token is marked as whitespace only if it is whitespace
    toks = new_tokens(old, self)
    emitted = text_of(toks)
    rest = view(self.stream)
    if not (method_name(self.state) == me and len(others(toks)) == 0 and emitted != "" and emitted + rest == v):
        return False
    stops = "\u0000" + ("&" if amp_state is not None else "") + ("<" if lt_state is not None else "")
    # (the first character is ordinary by the case analysis above; the rest is a run that stops before
    # anything special -- or a run of whitespace, which is never special)
    if not (no_chars(emitted[1:], stops) or in_chars(emitted[1:], SPACE_S)):
        return False
    ok = True
    for t in toks:
        if t["type"] == SPACECHARS:
            ok = ok and in_chars(t["data"], SPACE_S)
    return ok


@contract(TOK + ".dataState")
class DataState:
    props = ("C02",)
    modular = False

    def inputs(S):
        return dict(self=tokenizer(S, "dataState", "any"))

    def call(i):
        return run_state(i, 'dataState')

    @ensures("C02")
    def follows_the_standard(old, self, result):
        # U+0000 in the data state is emitted as it is (the tree builder deals with it)
        return text_state(old, self, result, "dataState", "entityDataState", "tagOpenState", "\u0000")


@contract(TOK + ".rcdataState")
class RcdataState:
    props = ("C02",)
    modular = False

    def inputs(S):
        return dict(self=tokenizer(S, "rcdataState", "any"))

    def call(i):
        return run_state(i, 'rcdataState')

    @ensures("C02")
    def follows_the_standard(old, self, result):
        return text_state(old, self, result, "rcdataState", "characterReferenceInRcdata", "rcdataLessThanSignState", "�")


@contract(TOK + ".rawtextState")
class RawtextState:
    props = ("C02",)
    modular = False

    def inputs(S):
        return dict(self=tokenizer(S, "rawtextState", "any"))

    def call(i):
        return run_state(i, 'rawtextState')

    @ensures("C02")
    def follows_the_standard(old, self, result):
        return text_state(old, self, result, "rawtextState", None, "rawtextLessThanSignState", "�")


@contract(TOK + ".scriptDataState")
class ScriptDataState:
    props = ("C02",)
    modular = False

    def inputs(S):
        return dict(self=tokenizer(S, "scriptDataState", "any"))

    def call(i):
        return run_state(i, 'scriptDataState')

    @ensures("C02")
    def follows_the_standard(old, self, result):
        return text_state(old, self, result, "scriptDataState", None, "scriptDataLessThanSignState", "�")


@contract(TOK + ".plaintextState")
class PlaintextState:
    props = ("C02",)
    modular = False

    def inputs(S):
        return dict(self=tokenizer(S, "plaintextState", "any"))

    def call(i):
        return run_state(i, 'plaintextState')

    @ensures("C02")
    def follows_the_standard(old, self, result):
        return text_state(old, self, result, "plaintextState", None, None, "�")


# ---- 13.2.5.6-8: tag open, end tag open, tag name -------------------------------------------------------------
def fresh_tag(tok, ttype, name):
    # a brand-new token with its own (empty, mutable) attribute list: nothing is shared with earlier tokens
    return (is_fresh(tok) and tok["type"] == ttype and tok["name"] == name and is_list(tok["data"])
            and is_fresh(tok["data"]) and len(tok["data"]) == 0 and tok["selfClosing"] is False)


@contract(TOK + ".tagOpenState")
class TagOpenState:
    props = ("C02",)
    modular = False

    def inputs(S):
        return dict(self=tokenizer(S, "tagOpenState", "any"))

    def call(i):
        return run_state(i, 'tagOpenState')

    @ensures("C02")
    def follows_the_standard(old, self, result):
        v = view(old.self.stream)
        if result is not True:
            return False
        c = v[:1]
        if c == "!":
            return step(old, self, "markupDeclarationOpenState", "", v[1:])
        if c == "/":
            return step(old, self, "closeTagOpenState", "", v[1:])
        if c in LETTERS_SET:
            # a new start tag token whose name is this letter (lower-cased on emission)
            return step(old, self, "tagNameState", "", v[1:]) and fresh_tag(self.currentToken, STARTTAG, c)
        if c == "?":
            return step(old, self, "bogusCommentState", "", v)         # reconsumed
        # anything else (including EOF): "<" is text and the character is reconsumed in the data state;
        # for ">" html5lib also performs that data-state step at once
        toks = new_tokens(old, self)
        return (method_name(self.state) == "dataState" and len(others(toks)) == 0
                and text_of(toks) + view(self.stream) == "<" + v
                and (text_of(toks) == "<" or text_of(toks) == "<>") and token_untouched(old, self))


@contract(TOK + ".closeTagOpenState")
class CloseTagOpenState:
    props = ("C02",)
    modular = False

    def inputs(S):
        return dict(self=tokenizer(S, "closeTagOpenState", "any"))

    def call(i):
        return run_state(i, 'closeTagOpenState')

    @ensures("C02")
    def follows_the_standard(old, self, result):
        v = view(old.self.stream)
        if result is not True:
            return False
        c = v[:1]
        if c in LETTERS_SET:
            return step(old, self, "tagNameState", "", v[1:]) and fresh_tag(self.currentToken, ENDTAG, c)
        if c == ">":
            return step(old, self, "dataState", "", v[1:])            # "</>" is dropped
        if c == "":
            return step(old, self, "dataState", "</", "")            # EOF: "</" is text
        return step(old, self, "bogusCommentState", "", v)             # reconsumed


def tag_changed_only(old, self, name):
    """the token under construction is the same object; only its name changed, to `name`"""
    t, o = self.currentToken, old.self.currentToken
    return (same_object(t, o) and t["name"] == name and t["type"] == o["type"] and t["data"] == o["data"]
            and t["selfClosing"] == o["selfClosing"])


@contract(TOK + ".tagNameState")
class TagNameState:
    props = ("C02",)
    modular = False

    def inputs(S):
        return dict(self=tokenizer(S, "tagNameState", "tag"))

    def call(i):
        return run_state(i, 'tagNameState')

    @ensures("C02")
    def follows_the_standard(old, self, result):
        v = view(old.self.stream)
        name = old.self.currentToken["name"]
        if result is not True:
            return False
        c = v[:1]
        if c == "":
            return step(old, self, "dataState", "", "")               # EOF in tag: the tag is dropped
        if c in SPACE:
            return step(old, self, "beforeAttributeNameState", "", v[1:]) and tag_changed_only(old, self, name)
        if c == "/":
            return step(old, self, "selfClosingStartTagState", "", v[1:]) and tag_changed_only(old, self, name)
        if c == ">":
            return emitted_current(old, self, v[1:])
        if c == "\u0000":
            return step(old, self, "tagNameState", "", v[1:]) and tag_changed_only(old, self, name + "�")
        return step(old, self, "tagNameState", "", v[1:]) and tag_changed_only(old, self, name + c)


def emitted_current(old, self, rest):
    """the token under construction was emitted (exactly one non-text token: that object) and the data state
    follows; what emission does to the token is emitCurrentToken's own contract"""
    toks = new_tokens(old, self)
    o = others(toks)
    return (method_name(self.state) == "dataState" and text_of(toks) == "" and len(o) == 1
            and same_object(o[0], old.self.currentToken) and view(self.stream) == rest)


def _emit_havoc(S, env):
    t = env.d["self"]
    tok = t.fields["currentToken"]
    t.fields["tokenQueue"].items.append(tok)
    t.fields["state"] = S.method(t, "dataState")


@contract(TOK + ".emitCurrentToken")
class EmitCurrentTokenAbstract:
    """as seen by the states: the current token is queued and the data state follows"""
    props = ("C02",)
    abstract_only = True
    havoc = _emit_havoc


# ---- 13.2.5.9-14: RCDATA / RAWTEXT less-than sign, end tag open, end tag name --------------------------------
def lt_sign(old, self, result, text_state_name, open_state_name):
    v = view(old.self.stream)
    if result is not True:
        return False
    if v[:1] == "/":
        return step(old, self, open_state_name, "", v[1:]) and self.temporaryBuffer == ""
    return step(old, self, text_state_name, "<", v) and token_untouched(old, self)      # "<" is text; reconsume


def end_tag_open(old, self, result, text_state_name, name_state_name):
    v = view(old.self.stream)
    if result is not True:
        return False
    c = v[:1]
    if c in LETTERS_SET:
        return (step(old, self, name_state_name, "", v[1:]) and self.temporaryBuffer == old.self.temporaryBuffer + c
                and token_untouched(old, self))
    return step(old, self, text_state_name, "</", v) and token_untouched(old, self)


def end_tag_name(old, self, result, text_state_name, name_state_name):
    """an "appropriate end tag token": its name (compared ASCII case-insensitively) is the name of the last
    start tag emitted, which html5lib keeps in currentToken"""
    v = view(old.self.stream)
    tmp = old.self.temporaryBuffer
    cur = old.self.currentToken
    if result is not True:
        return False
    appropriate = cur is not None and cur["name"].lower() == tmp.lower()
    c = v[:1]
    if appropriate and (c in SPACE or c == "/" or c == ">"):
        if c == ">":
            toks = new_tokens(old, self)
            o = others(toks)
            return (method_name(self.state) == "dataState" and text_of(toks) == "" and len(o) == 1
                    and view(self.stream) == v[1:] and fresh_tag(o[0], ENDTAG, tmp))
        nxt = "beforeAttributeNameState" if c in SPACE else "selfClosingStartTagState"
        return step(old, self, nxt, "", v[1:]) and fresh_tag(self.currentToken, ENDTAG, tmp)
    if c in LETTERS_SET:
        return (step(old, self, name_state_name, "", v[1:]) and self.temporaryBuffer == tmp + c
                and token_untouched(old, self))
    return step(old, self, text_state_name, "</" + tmp, v) and token_untouched(old, self)


def _emit_fresh_havoc(S, env):
    _emit_havoc(S, env)



@contract(TOK + ".rcdataLessThanSignState")
class LT_rcdata:
    props = ("C02",)
    modular = False

    def inputs(S):
        return dict(self=tokenizer(S, "rcdataLessThanSignState", "any"))

    def call(i):
        return run_state(i, "rcdataLessThanSignState")

    @ensures("C02")
    def follows_the_standard(old, self, result):
        return lt_sign(old, self, result, "rcdataState", "rcdataEndTagOpenState")


@contract(TOK + ".rcdataEndTagOpenState")
class OP_rcdata:
    props = ("C02",)
    modular = False

    def inputs(S):
        return dict(self=tokenizer(S, "rcdataEndTagOpenState", "any"))

    def call(i):
        return run_state(i, "rcdataEndTagOpenState")

    @ensures("C02")
    def follows_the_standard(old, self, result):
        return end_tag_open(old, self, result, "rcdataState", "rcdataEndTagNameState")


@contract(TOK + ".rcdataEndTagNameState")
class NM_rcdata:
    props = ("C02", "C12")
    modular = False

    def inputs(S):
        return dict(self=tokenizer(S, "rcdataEndTagNameState", "any"))

    def call(i):
        return run_state(i, "rcdataEndTagNameState")

    @ensures("C02", "C12")
    def follows_the_standard(old, self, result):
        return end_tag_name(old, self, result, "rcdataState", "rcdataEndTagNameState")

@contract(TOK + ".rawtextLessThanSignState")
class LT_rawtext:
    props = ("C02",)
    modular = False

    def inputs(S):
        return dict(self=tokenizer(S, "rawtextLessThanSignState", "any"))

    def call(i):
        return run_state(i, "rawtextLessThanSignState")

    @ensures("C02")
    def follows_the_standard(old, self, result):
        return lt_sign(old, self, result, "rawtextState", "rawtextEndTagOpenState")


@contract(TOK + ".rawtextEndTagOpenState")
class OP_rawtext:
    props = ("C02",)
    modular = False

    def inputs(S):
        return dict(self=tokenizer(S, "rawtextEndTagOpenState", "any"))

    def call(i):
        return run_state(i, "rawtextEndTagOpenState")

    @ensures("C02")
    def follows_the_standard(old, self, result):
        return end_tag_open(old, self, result, "rawtextState", "rawtextEndTagNameState")


@contract(TOK + ".rawtextEndTagNameState")
class NM_rawtext:
    props = ("C02", "C12")
    modular = False

    def inputs(S):
        return dict(self=tokenizer(S, "rawtextEndTagNameState", "any"))

    def call(i):
        return run_state(i, "rawtextEndTagNameState")

    @ensures("C02", "C12")
    def follows_the_standard(old, self, result):
        return end_tag_name(old, self, result, "rawtextState", "rawtextEndTagNameState")


# ---- 13.2.5.32-40: attribute states -------------------------------------------------------------------------
def attrs_after(old, self, extra):
    """same token object, same type and tag name; its attribute list is the old one followed by `extra`
    (a list of [name, value] pairs that replaces the old LAST attribute when `extra[0]` is None)"""
    t, o = self.currentToken, old.self.currentToken
    return same_object(t, o) and t["type"] == o["type"] and t["name"] == o["name"] and t["selfClosing"] == o["selfClosing"]


def last_attr_is(self, name, value):
    a = self.currentToken["data"][-1]
    return a[0] == name and a[1] == value


def appended_attr(old, self, name):
    """one new attribute [name, ""] was appended; the others are untouched"""
    return (attrs_after(old, self, None) and len(self.currentToken["data"]) == len(old.self.currentToken["data"]) + 1
            and last_attr_is(self, name, "")
            and self.currentToken["data"][:-1] == old.self.currentToken["data"])


def attrs_untouched(old, self):
    return attrs_after(old, self, None) and self.currentToken["data"] == old.self.currentToken["data"]


def last_attr_became(old, self, name, value):
    return (attrs_after(old, self, None) and len(self.currentToken["data"]) == len(old.self.currentToken["data"])
            and last_attr_is(self, name, value)
            and self.currentToken["data"][:-1] == old.self.currentToken["data"][:-1])


@contract(TOK + ".beforeAttributeNameState")
class BeforeAttributeNameState:
    props = ("C02",)
    modular = False

    def inputs(S):
        return dict(self=tokenizer(S, "beforeAttributeNameState", "tag"))

    def call(i):
        return run_state(i, "beforeAttributeNameState")

    @ensures("C02")
    def follows_the_standard(old, self, result):
        v = view(old.self.stream)
        if result is not True:
            return False
        c = v[:1]
        if c == "":
            return step(old, self, "dataState", "", "")
        if c in SPACE:
            # whitespace is ignored (the whole run at once)
            rest = view(self.stream)
            skipped = remove_suffix(v, rest)
            return (step(old, self, "beforeAttributeNameState", "", rest) and v == skipped + rest
                    and in_chars(skipped, SPACE_S) and attrs_untouched(old, self))
        if c == ">":
            return emitted_current(old, self, v[1:])
        if c == "/":
            return step(old, self, "selfClosingStartTagState", "", v[1:]) and attrs_untouched(old, self)
        if c == "\u0000":
            return step(old, self, "attributeNameState", "", v[1:]) and appended_attr(old, self, "�")
        return step(old, self, "attributeNameState", "", v[1:]) and appended_attr(old, self, c)


@contract(TOK + ".afterAttributeNameState")
class AfterAttributeNameState:
    props = ("C02",)
    modular = False

    def inputs(S):
        return dict(self=tokenizer(S, "afterAttributeNameState", "attr"))

    def call(i):
        return run_state(i, "afterAttributeNameState")

    @ensures("C02")
    def follows_the_standard(old, self, result):
        v = view(old.self.stream)
        if result is not True:
            return False
        c = v[:1]
        if c == "":
            return step(old, self, "dataState", "", "")
        if c in SPACE:
            rest = view(self.stream)
            skipped = remove_suffix(v, rest)
            return (step(old, self, "afterAttributeNameState", "", rest) and v == skipped + rest
                    and in_chars(skipped, SPACE_S) and attrs_untouched(old, self))
        if c == "=":
            return step(old, self, "beforeAttributeValueState", "", v[1:]) and attrs_untouched(old, self)
        if c == ">":
            return emitted_current(old, self, v[1:])
        if c == "/":
            return step(old, self, "selfClosingStartTagState", "", v[1:]) and attrs_untouched(old, self)
        if c == "\u0000":
            return step(old, self, "attributeNameState", "", v[1:]) and appended_attr(old, self, "�")
        return step(old, self, "attributeNameState", "", v[1:]) and appended_attr(old, self, c)


@contract(TOK + ".beforeAttributeValueState")
class BeforeAttributeValueState:
    props = ("C02",)
    modular = False

    def inputs(S):
        return dict(self=tokenizer(S, "beforeAttributeValueState", "attr"))

    def call(i):
        return run_state(i, "beforeAttributeValueState")

    @ensures("C02")
    def follows_the_standard(old, self, result):
        v = view(old.self.stream)
        a = old.self.currentToken["data"][-1]
        if result is not True:
            return False
        c = v[:1]
        if c == "":
            return step(old, self, "dataState", "", "")
        if c in SPACE:
            rest = view(self.stream)
            skipped = remove_suffix(v, rest)
            return (step(old, self, "beforeAttributeValueState", "", rest) and v == skipped + rest
                    and in_chars(skipped, SPACE_S) and attrs_untouched(old, self))
        if c == "\"":
            return step(old, self, "attributeValueDoubleQuotedState", "", v[1:]) and attrs_untouched(old, self)
        if c == "'":
            return step(old, self, "attributeValueSingleQuotedState", "", v[1:]) and attrs_untouched(old, self)
        if c == "&":
            return step(old, self, "attributeValueUnQuotedState", "", v) and attrs_untouched(old, self)      # reconsumed
        if c == ">":
            return emitted_current(old, self, v[1:])
        if c == "\u0000":
            return step(old, self, "attributeValueUnQuotedState", "", v[1:]) and last_attr_became(old, self, a[0], a[1] + "�")
        return step(old, self, "attributeValueUnQuotedState", "", v[1:]) and last_attr_became(old, self, a[0], a[1] + c)


def quoted_value(old, self, result, me, quote):
    v = view(old.self.stream)
    a = old.self.currentToken["data"][-1]
    if result is not True:
        return False
    c = v[:1]
    if c == "":
        return step(old, self, "dataState", "", "")
    if c == quote:
        return step(old, self, "afterAttributeValueState", "", v[1:]) and attrs_untouched(old, self)
    if c == "&":
        return True          # character reference in attribute value: consumeEntity's contract (C14)
    if c == "\u0000":
        return step(old, self, me, "", v[1:]) and last_attr_became(old, self, a[0], a[1] + "�")
    # a run of ordinary characters is appended to the value
    rest = view(self.stream)
    run = remove_suffix(v, rest)
    return (step(old, self, me, "", rest) and v == run + rest and run != "" and no_chars(run[1:], quote + "&\u0000")
            and last_attr_became(old, self, a[0], a[1] + run))


@contract(TOK + ".attributeValueDoubleQuotedState")
class AttributeValueDoubleQuotedState:
    props = ("C02",)
    modular = False

    def inputs(S):
        return dict(self=tokenizer(S, "attributeValueDoubleQuotedState", "attr"))

    def call(i):
        return run_state(i, "attributeValueDoubleQuotedState")

    @ensures("C02")
    def follows_the_standard(old, self, result):
        return quoted_value(old, self, result, "attributeValueDoubleQuotedState", "\"")


@contract(TOK + ".attributeValueSingleQuotedState")
class AttributeValueSingleQuotedState:
    props = ("C02",)
    modular = False

    def inputs(S):
        return dict(self=tokenizer(S, "attributeValueSingleQuotedState", "attr"))

    def call(i):
        return run_state(i, "attributeValueSingleQuotedState")

    @ensures("C02")
    def follows_the_standard(old, self, result):
        return quoted_value(old, self, result, "attributeValueSingleQuotedState", "'")


@contract(TOK + ".attributeValueUnQuotedState")
class AttributeValueUnQuotedState:
    props = ("C02",)
    modular = False

    def inputs(S):
        return dict(self=tokenizer(S, "attributeValueUnQuotedState", "attr"))

    def call(i):
        return run_state(i, "attributeValueUnQuotedState")

    @ensures("C02")
    def follows_the_standard(old, self, result):
        v = view(old.self.stream)
        a = old.self.currentToken["data"][-1]
        if result is not True:
            return False
        c = v[:1]
        if c == "":
            return step(old, self, "dataState", "", "")
        if c in SPACE:
            return step(old, self, "beforeAttributeNameState", "", v[1:]) and attrs_untouched(old, self)
        if c == "&":
            return True          # consumeEntity (C14), additional allowed character '>'
        if c == ">":
            return emitted_current(old, self, v[1:])
        if c == "\u0000":
            return step(old, self, "attributeValueUnQuotedState", "", v[1:]) and last_attr_became(old, self, a[0], a[1] + "�")
        rest = view(self.stream)
        run = remove_suffix(v, rest)
        return (step(old, self, "attributeValueUnQuotedState", "", rest) and v == run + rest and run != ""
                and no_chars(run[1:], "\t\n\x0c \r&>\"'=<`\u0000")
                and last_attr_became(old, self, a[0], a[1] + run))


@contract(TOK + ".afterAttributeValueState")
class AfterAttributeValueState:
    props = ("C02",)
    modular = False

    def inputs(S):
        return dict(self=tokenizer(S, "afterAttributeValueState", "attr"))

    def call(i):
        return run_state(i, "afterAttributeValueState")

    @ensures("C02")
    def follows_the_standard(old, self, result):
        v = view(old.self.stream)
        if result is not True:
            return False
        c = v[:1]
        if c == "":
            return step(old, self, "dataState", "", "")
        if c in SPACE:
            return step(old, self, "beforeAttributeNameState", "", v[1:]) and attrs_untouched(old, self)
        if c == ">":
            return emitted_current(old, self, v[1:])
        if c == "/":
            return step(old, self, "selfClosingStartTagState", "", v[1:]) and attrs_untouched(old, self)
        return step(old, self, "beforeAttributeNameState", "", v) and attrs_untouched(old, self)        # reconsumed


@contract(TOK + ".selfClosingStartTagState")
class SelfClosingStartTagState:
    props = ("C02",)
    modular = False

    def inputs(S):
        return dict(self=tokenizer(S, "selfClosingStartTagState", "tag"))

    def call(i):
        return run_state(i, "selfClosingStartTagState")

    @ensures("C02")
    def follows_the_standard(old, self, result):
        v = view(old.self.stream)
        if result is not True:
            return False
        c = v[:1]
        if c == "":
            return step(old, self, "dataState", "", "")
        if c == ">":
            return emitted_current(old, self, v[1:]) and old.self.currentToken is not None and self.currentToken["selfClosing"] is True
        return step(old, self, "beforeAttributeNameState", "", v)          # reconsumed


# ---- attribute name state (13.2.5.33) ----------------------------------------------------------------------
ASCII_LOWER = {c: c + 32 for c in range(65, 91)}


def ascii_lower(s):
    """ASCII lower-casing (the standard's "lowercase version"): A-Z only, everything else untouched"""
    return s.translate(ASCII_LOWER)


def _dup_element(S, L):
    return (S.str("earlier_name"), S.str("earlier_value"))


def _dup_havoc(S, L):
    # the duplicate-attribute scan may queue one parse error (ignored by the comparison) and nothing else
    if S.choice(2) == 0:
        L.self.fields["tokenQueue"].items.append(S.dict({"type": PARSEERROR, "data": "duplicate-attribute"}))


def dup_step(yielded, pre, self):
    # one iteration of the scan: at most a parse-error token is queued
    new = appended(pre.self.tokenQueue, self.tokenQueue)
    return len(others(new)) == 0 and text_of(new) == "" and self.currentToken == pre.self.currentToken


@contract(TOK + ".attributeNameState")
class AttributeNameState:
    props = ("C02",)
    modular = False

    def inputs(S):
        return dict(self=tokenizer(S, "attributeNameState", "attr"))

    def call(i):
        return run_state(i, "attributeNameState")

    loops = {"For1": LoopSpec(element=_dup_element, havoc=_dup_havoc, props=("C02",),
                              step=[clause("scan_only_reports", dup_step, "C02")])}

    @ensures("C02")
    def follows_the_standard(old, self, result):
        v = view(old.self.stream)
        a = old.self.currentToken["data"][-1]
        if result is not True:
            return False
        c = v[:1]
        if c == "":
            return step(old, self, "dataState", "", "")
        # leaving the state fixes the attribute name: its ASCII lower-case version
        if c == "=":
            return step(old, self, "beforeAttributeValueState", "", v[1:]) and last_attr_became(old, self, ascii_lower(a[0]), a[1])
        if c in SPACE:
            return step(old, self, "afterAttributeNameState", "", v[1:]) and last_attr_became(old, self, ascii_lower(a[0]), a[1])
        if c == "/":
            return step(old, self, "selfClosingStartTagState", "", v[1:]) and last_attr_became(old, self, ascii_lower(a[0]), a[1])
        if c == ">":
            return emitted_current(old, self, v[1:]) and last_attr_became(old, self, ascii_lower(a[0]), a[1])
        if c == "\u0000":
            return step(old, self, "attributeNameState", "", v[1:]) and last_attr_became(old, self, a[0] + "�", a[1])
        # any other character (a run of letters at once) is appended to the name
        rest = view(self.stream)
        run = remove_suffix(v, rest)
        return (step(old, self, "attributeNameState", "", rest) and v == run + rest and run != ""
                and (run == c or in_chars(run, LETTERS)) and last_attr_became(old, self, a[0] + run, a[1]))


# ---- emitting the current tag token ------------------------------------------------------------------------------
def _emit_inputs(S):
    t = S.obj(TOK, stream=abstract_stream(S), tokenQueue=S.anylist("tokenQueue", cls="deque"),
              temporaryBuffer=S.str("temporaryBuffer"))
    ttype = S.one_of(STARTTAG, ENDTAG)
    n = S.choice(4)
    attrs = S.list([S.list([S.str("n%d" % k), S.str("v%d" % k)]) for k in range(n)])
    tok = S.dict({"type": ttype, "name": S.str("tagname"), "data": attrs, "selfClosing": S.bool("selfClosing")})
    t.fields["currentToken"] = tok
    t.fields["state"] = S.method(t, "tagNameState")
    return dict(self=t)


@contract(TOK + ".emitCurrentToken")
class EmitCurrentToken:
    props = ("C02",)
    modular = False
    inputs = _emit_inputs

    def call(i):
        return run_state(i, "emitCurrentToken")

    def candidates():
        for name in ("DIV", "div", "a\u212a", "X-\u00c9L\u00c9MENT", "D\u0130V", "\u03a3x"):
            for ttype in (STARTTAG, ENDTAG):
                for attrs in ([], [["A", "1"], ["a", "2"]], [["x", "1"], ["x", "2"], ["y", "3"]]):
                    yield {"self": {"stream": {"ghost_view": "rest"}, "temporaryBuffer": "",
                                    "currentToken": {"type": ttype, "name": name, "data": [list(p) for p in attrs],
                                                     "selfClosing": False}}}

    @ensures("C02")
    def queued_lowercased_and_back_to_data(old, self, result):
        toks = new_tokens(old, self)
        o = others(toks)
        return (method_name(self.state) == "dataState" and text_of(toks) == "" and len(o) == 1
                and same_object(o[0], old.self.currentToken) and o[0]["name"] == ascii_lower(old.self.currentToken["name"])
                and o[0]["type"] == old.self.currentToken["type"] and o[0]["selfClosing"] == old.self.currentToken["selfClosing"]
                and view(self.stream) == view(old.self.stream))

    @ensures("C02")
    @bounded("attribute lists of length <= 3 (any names, any values)")
    def first_duplicate_attribute_wins(old, self, result):
        raw = old.self.currentToken["data"]
        if old.self.currentToken["type"] != STARTTAG:
            return True
        data = self.currentToken["data"]
        ok = is_dict(data)
        k = 0
        for pair in raw:
            # every name is present, with the value of its FIRST occurrence
            first = pair[1]
            for j in range(k - 1, -1, -1):
                if raw[j][0] == pair[0]:
                    first = raw[j][1]
            ok = ok and has_key(data, pair[0]) and data[pair[0]] == first
            k = k + 1
        return ok



# ---- comment states (13.2.5.43-52) ---------------------------------------------------------------------------
# html5lib has no "reconsume in the comment state" steps: where the standard appends something and reconsumes, the
# code appends that and what the comment state would append for the same character; the contracts state the
# composite (comment data and next state after the character has been dealt with).  The standard's
# comment-less-than-sign states only raise parse errors and append the characters they see, which is what the
# comment state's ordinary branch does here.
def comment_step(old, self, state, suffix, rest):
    """still the same comment token, its data grown by `suffix`; nothing emitted but parse errors"""
    toks = new_tokens(old, self)
    return (method_name(self.state) == state and len(others(toks)) == 0 and text_of(toks) == ""
            and same_object(self.currentToken, old.self.currentToken) and self.currentToken["type"] == COMMENT
            and self.currentToken["data"] == old.self.currentToken["data"] + suffix and view(self.stream) == rest)


def comment_emitted(old, self, suffix, rest):
    toks = new_tokens(old, self)
    o = others(toks)
    return (method_name(self.state) == "dataState" and text_of(toks) == "" and len(o) == 1
            and same_object(o[0], old.self.currentToken) and o[0]["type"] == COMMENT
            and o[0]["data"] == old.self.currentToken["data"] + suffix and view(self.stream) == rest)


def nul_or(c):
    return "\ufffd" if c == "\u0000" else c


def spec_comment_start(old, self, v, c):
    if c == "":
        return comment_emitted(old, self, "", "")
    if c == "-":
        return comment_step(old, self, "commentStartDashState", "", v[1:])
    if c == ">":
        return comment_emitted(old, self, "", v[1:])
    return comment_step(old, self, "commentState", nul_or(c), v[1:])          # reconsumed in the comment state


def spec_comment_start_dash(old, self, v, c):
    if c == "":
        return comment_emitted(old, self, "", "")
    if c == "-":
        return comment_step(old, self, "commentEndState", "", v[1:])
    if c == ">":
        return comment_emitted(old, self, "", v[1:])
    return comment_step(old, self, "commentState", "-" + nul_or(c), v[1:])


def spec_comment(old, self, v, c):
    if c == "":
        return comment_emitted(old, self, "", "")
    if c == "-":
        return comment_step(old, self, "commentEndDashState", "", v[1:])
    if c == "\u0000":
        return comment_step(old, self, "commentState", "\ufffd", v[1:])
    # a non-empty run of ordinary characters is appended; it stops before '-' or U+0000 at the latest
    toks = new_tokens(old, self)
    grown = self.currentToken["data"]
    before = old.self.currentToken["data"]
    rest = view(self.stream)
    if not (method_name(self.state) == "commentState" and len(others(toks)) == 0 and text_of(toks) == ""
            and same_object(self.currentToken, old.self.currentToken) and self.currentToken["type"] == COMMENT):
        return False
    if not grown.startswith(before):
        return False
    run = grown[len(before):]
    return run != "" and run + rest == v and no_chars(run[1:], "-\u0000")


def spec_comment_end_dash(old, self, v, c):
    if c == "":
        return comment_emitted(old, self, "", "")
    if c == "-":
        return comment_step(old, self, "commentEndState", "", v[1:])
    return comment_step(old, self, "commentState", "-" + nul_or(c), v[1:])


def spec_comment_end(old, self, v, c):
    if c == "":
        return comment_emitted(old, self, "", "")
    if c == ">":
        return comment_emitted(old, self, "", v[1:])
    if c == "!":
        return comment_step(old, self, "commentEndBangState", "", v[1:])
    if c == "-":
        return comment_step(old, self, "commentEndState", "-", v[1:])
    return comment_step(old, self, "commentState", "--" + nul_or(c), v[1:])


def spec_comment_end_bang(old, self, v, c):
    if c == "":
        return comment_emitted(old, self, "", "")
    if c == "-":
        return comment_step(old, self, "commentEndDashState", "--!", v[1:])
    if c == ">":
        return comment_emitted(old, self, "", v[1:])
    return comment_step(old, self, "commentState", "--!" + nul_or(c), v[1:])


@contract(TOK + ".commentStartState")
class CommentStartState:
    props = ("C02",)
    modular = False

    def inputs(S):
        return dict(self=tokenizer(S, "commentStartState", "comment"))

    def call(i):
        return run_state(i, "commentStartState")

    @ensures("C02")
    def follows_the_standard(old, self, result):
        v = view(old.self.stream)
        if result is not True:
            return False
        return spec_comment_start(old, self, v, v[:1])


@contract(TOK + ".commentStartDashState")
class CommentStartDashState:
    props = ("C02",)
    modular = False

    def inputs(S):
        return dict(self=tokenizer(S, "commentStartDashState", "comment"))

    def call(i):
        return run_state(i, "commentStartDashState")

    @ensures("C02")
    def follows_the_standard(old, self, result):
        v = view(old.self.stream)
        if result is not True:
            return False
        return spec_comment_start_dash(old, self, v, v[:1])


@contract(TOK + ".commentState")
class CommentState:
    props = ("C02",)
    modular = False

    def inputs(S):
        return dict(self=tokenizer(S, "commentState", "comment"))

    def call(i):
        return run_state(i, "commentState")

    @ensures("C02")
    def follows_the_standard(old, self, result):
        v = view(old.self.stream)
        if result is not True:
            return False
        return spec_comment(old, self, v, v[:1])


@contract(TOK + ".commentEndDashState")
class CommentEndDashState:
    props = ("C02",)
    modular = False

    def inputs(S):
        return dict(self=tokenizer(S, "commentEndDashState", "comment"))

    def call(i):
        return run_state(i, "commentEndDashState")

    @ensures("C02")
    def follows_the_standard(old, self, result):
        v = view(old.self.stream)
        if result is not True:
            return False
        return spec_comment_end_dash(old, self, v, v[:1])


@contract(TOK + ".commentEndState")
class CommentEndState:
    props = ("C02",)
    modular = False

    def inputs(S):
        return dict(self=tokenizer(S, "commentEndState", "comment"))

    def call(i):
        return run_state(i, "commentEndState")

    @ensures("C02")
    def follows_the_standard(old, self, result):
        v = view(old.self.stream)
        if result is not True:
            return False
        return spec_comment_end(old, self, v, v[:1])


@contract(TOK + ".commentEndBangState")
class CommentEndBangState:
    props = ("C02",)
    modular = False

    def inputs(S):
        return dict(self=tokenizer(S, "commentEndBangState", "comment"))

    def call(i):
        return run_state(i, "commentEndBangState")

    @ensures("C02")
    def follows_the_standard(old, self, result):
        v = view(old.self.stream)
        if result is not True:
            return False
        return spec_comment_end_bang(old, self, v, v[:1])


# ---- bogus comment state (13.2.5.41) and markup declaration open state (13.2.5.42) -------------------------------
@contract(TOK + ".bogusCommentState")
class BogusCommentState:
    props = ("C02",)
    modular = False
    budget = {"prove_ms": 60000}      # the clause needs ~9 s of z3 (replace over a split of the input)

    def inputs(S):
        return dict(self=tokenizer(S, "bogusCommentState", "any"))

    def call(i):
        return run_state(i, "bogusCommentState")

    @ensures("C02")
    def follows_the_standard(old, self, result):
        # everything up to the next '>' (or the end of input) becomes the data of a new comment token, with U+0000
        # replaced; the '>' is consumed; the data state follows
        v = view(old.self.stream)
        toks = new_tokens(old, self)
        o = others(toks)
        if not (result is True and method_name(self.state) == "dataState" and text_of(toks) == "" and len(o) == 1):
            return False
        if not (o[0]["type"] == COMMENT and is_str(o[0]["data"])):
            return False
        rest = view(self.stream)
        if ">" not in v:
            return rest == "" and o[0]["data"] == v.replace("\u0000", "\ufffd")
        if not v.endswith(">" + rest):
            return False
        raw = remove_suffix(v, ">" + rest)
        return ">" not in raw and o[0]["data"] == raw.replace("\u0000", "\ufffd")


DOCTYPE_LETTERS = (("d", "D"), ("o", "O"), ("c", "C"), ("t", "T"), ("y", "Y"), ("p", "P"), ("e", "E"))


def is_doctype_keyword(v):
    for i in range(7):
        if v[i:i + 1] not in DOCTYPE_LETTERS[i]:
            return False
    return True


@contract(TOK + ".markupDeclarationOpenState")
class MarkupDeclarationOpenState:
    props = ("C02",)
    modular = False

    def inputs(S):
        t = tokenizer(S, "markupDeclarationOpenState", "any")
        t.fields["parser"] = None            # stand-alone tokenizer: no adjusted current node, so no CDATA sections
        return dict(self=t)

    def call(i):
        return run_state(i, "markupDeclarationOpenState")

    @ensures("C02")
    def follows_the_standard(old, self, result):
        v = view(old.self.stream)
        toks = new_tokens(old, self)
        if not (result is True and len(others(toks)) == 0 and text_of(toks) == ""):
            return False
        rest = view(self.stream)
        if v.startswith("--"):
            t = self.currentToken
            return (method_name(self.state) == "commentStartState" and rest == v[2:] and is_dict(t)
                    and not same_object(t, old.self.currentToken) and t["type"] == COMMENT and t["data"] == "")
        if is_doctype_keyword(v):
            t = self.currentToken
            return (method_name(self.state) == "doctypeState" and rest == v[7:] and is_dict(t)
                    and not same_object(t, old.self.currentToken) and t["type"] == DOCTYPE and t["name"] == ""
                    and t["publicId"] is None and t["systemId"] is None and t["correct"] is True)
        # anything else (incl. "[CDATA[" outside foreign content): bogus comment, nothing consumed
        return method_name(self.state) == "bogusCommentState" and rest == v and token_untouched(old, self)


# ---- DOCTYPE states (13.2.5.53-68) --------------------------------------------------------------------------------
# html5lib keeps the DOCTYPE name as typed and lower-cases it when the name state is left (the standard lower-cases
# each letter as it is appended; the emitted token is the same).  Where the standard says "reconsume in the bogus
# DOCTYPE state" some states here consume the character instead: it is not '>' there, and the bogus DOCTYPE state
# ignores everything else.  "force-quirks on" is `correct` False.
# (the abstract stream does not promise that its characters are free of CR: the code's spaceCharacters contains it)
WS = SPACE
DT_FIELDS = ("name", "publicId", "systemId", "correct")


def doctype_token(S):
    return S.dict({"type": DOCTYPE, "name": S.str("dtname"), "publicId": S.one_of(None, lambda: S.str("publicId")),
                   "systemId": S.one_of(None, lambda: S.str("systemId")), "correct": S.bool("correct")})


def dt_same_but(old, tok, field, value):
    """`tok` is the token under construction of the pre-state, unchanged except that `field` now has `value`"""
    o = old.self.currentToken
    if not (same_object(tok, o) and tok["type"] == DOCTYPE):
        return False
    for f in DT_FIELDS:
        if f == field:
            if tok[f] != value:
                return False
        elif tok[f] != o[f]:
            return False
    return True


def dt_step(old, self, state, rest, field, value):
    toks = new_tokens(old, self)
    return (method_name(self.state) == state and len(others(toks)) == 0 and text_of(toks) == ""
            and view(self.stream) == rest and dt_same_but(old, self.currentToken, field, value))


def dt_emitted(old, self, rest, field, value):
    toks = new_tokens(old, self)
    o = others(toks)
    return (method_name(self.state) == "dataState" and text_of(toks) == "" and len(o) == 1
            and view(self.stream) == rest and dt_same_but(old, o[0], field, value))


def dt_tokenizer(S, state):
    t = tokenizer(S, state, "none")
    tok = doctype_token(S)
    # the quoted-identifier states are entered only after the identifier has been set to the empty string
    if "PublicIdentifier" in state and "Quoted" in state:
        tok.entries["publicId"] = [S.str("publicId_q"), True]
    if "SystemIdentifier" in state and "Quoted" in state:
        tok.entries["systemId"] = [S.str("systemId_q"), True]
    t.fields["currentToken"] = tok
    return t


def spec_doctype(old, self, v, c):
    if c == "":
        return dt_emitted(old, self, "", "correct", False)
    if c in WS:
        return dt_step(old, self, "beforeDoctypeNameState", v[1:], "", None)
    return dt_step(old, self, "beforeDoctypeNameState", v, "", None)                 # reconsumed


def spec_before_doctype_name(old, self, v, c):
    if c == "":
        return dt_emitted(old, self, "", "correct", False)
    if c in WS:
        return dt_step(old, self, "beforeDoctypeNameState", v[1:], "", None)
    if c == ">":
        return dt_emitted(old, self, v[1:], "correct", False)
    # the name starts with this character (lower-cased when the name state is left), U+0000 as U+FFFD
    return dt_step(old, self, "doctypeNameState", v[1:], "name", nul_or(c))


def spec_doctype_name(old, self, v, c):
    name = old.self.currentToken["name"]
    if c == "":
        toks = new_tokens(old, self)
        o = others(toks)
        return (method_name(self.state) == "dataState" and len(o) == 1 and same_object(o[0], old.self.currentToken)
                and o[0]["correct"] is False and o[0]["name"] == ascii_lower(name) and view(self.stream) == "")
    if c in WS:
        return dt_step(old, self, "afterDoctypeNameState", v[1:], "name", ascii_lower(name))
    if c == ">":
        return dt_emitted(old, self, v[1:], "name", ascii_lower(name))
    return dt_step(old, self, "doctypeNameState", v[1:], "name", name + nul_or(c))


def is_keyword(v, letters):
    for i in range(6):
        if v[i:i + 1] not in letters[i]:
            return False
    return True


PUBLIC_LETTERS = (("p", "P"), ("u", "U"), ("b", "B"), ("l", "L"), ("i", "I"), ("c", "C"))
SYSTEM_LETTERS = (("s", "S"), ("y", "Y"), ("s", "S"), ("t", "T"), ("e", "E"), ("m", "M"))


def spec_after_doctype_name(old, self, v, c):
    if c == "":
        return dt_emitted(old, self, "", "correct", False)
    if c in WS:
        return dt_step(old, self, "afterDoctypeNameState", v[1:], "", None)
    if c == ">":
        return dt_emitted(old, self, v[1:], "", None)
    if is_keyword(v, PUBLIC_LETTERS):
        return dt_step(old, self, "afterDoctypePublicKeywordState", v[6:], "", None)
    if is_keyword(v, SYSTEM_LETTERS):
        return dt_step(old, self, "afterDoctypeSystemKeywordState", v[6:], "", None)
    # force-quirks, bogus DOCTYPE; html5lib drops the letters of a partly matched keyword, none of which is '>'
    rest = view(self.stream)
    toks = new_tokens(old, self)
    if not (method_name(self.state) == "bogusDoctypeState" and len(others(toks)) == 0 and text_of(toks) == ""
            and dt_same_but(old, self.currentToken, "correct", False)):
        return False
    return v.endswith(rest) and ">" not in remove_suffix(v, rest) and len(rest) + 6 > len(v)


def spec_after_keyword(old, self, v, c, before):
    if c == "":
        return dt_emitted(old, self, "", "correct", False)
    if c in WS:
        return dt_step(old, self, before, v[1:], "", None)
    # quotes, '>' and anything else are handed to the "before identifier" state (which does what the standard
    # prescribes for them in this state)
    return dt_step(old, self, before, v, "", None)


def spec_before_identifier(old, self, v, c, field, dq, sq):
    if c == "":
        return dt_emitted(old, self, "", "correct", False)
    if c in WS:
        return dt_step(old, self, method_name(old.self.state), v[1:], "", None)
    if c == '"':
        return dt_step(old, self, dq, v[1:], field, "")
    if c == "'":
        return dt_step(old, self, sq, v[1:], field, "")
    if c == ">":
        return dt_emitted(old, self, v[1:], "correct", False)
    return dt_step(old, self, "bogusDoctypeState", v[1:], "correct", False)


def spec_identifier_quoted(old, self, v, c, field, quote, after):
    cur = old.self.currentToken[field]
    if c == "":
        return dt_emitted(old, self, "", "correct", False)
    if c == quote:
        return dt_step(old, self, after, v[1:], "", None)
    if c == ">":
        return dt_emitted(old, self, v[1:], "correct", False)
    return dt_step(old, self, method_name(old.self.state), v[1:], field, cur + nul_or(c))


def spec_after_public_identifier(old, self, v, c):
    if c == "":
        return dt_emitted(old, self, "", "correct", False)
    if c in WS:
        return dt_step(old, self, "betweenDoctypePublicAndSystemIdentifiersState", v[1:], "", None)
    if c == ">":
        return dt_emitted(old, self, v[1:], "", None)
    if c == '"':
        return dt_step(old, self, "doctypeSystemIdentifierDoubleQuotedState", v[1:], "systemId", "")
    if c == "'":
        return dt_step(old, self, "doctypeSystemIdentifierSingleQuotedState", v[1:], "systemId", "")
    return dt_step(old, self, "bogusDoctypeState", v[1:], "correct", False)


def spec_between_identifiers(old, self, v, c):
    if c == "":
        return dt_emitted(old, self, "", "correct", False)
    if c in WS:
        return dt_step(old, self, "betweenDoctypePublicAndSystemIdentifiersState", v[1:], "", None)
    if c == ">":
        return dt_emitted(old, self, v[1:], "", None)
    if c == '"':
        return dt_step(old, self, "doctypeSystemIdentifierDoubleQuotedState", v[1:], "systemId", "")
    if c == "'":
        return dt_step(old, self, "doctypeSystemIdentifierSingleQuotedState", v[1:], "systemId", "")
    return dt_step(old, self, "bogusDoctypeState", v[1:], "correct", False)


def spec_after_system_identifier(old, self, v, c):
    if c == "":
        return dt_emitted(old, self, "", "correct", False)
    if c in WS:
        return dt_step(old, self, "afterDoctypeSystemIdentifierState", v[1:], "", None)
    if c == ">":
        return dt_emitted(old, self, v[1:], "", None)
    return dt_step(old, self, "bogusDoctypeState", v[1:], "", None)          # no force-quirks here (standard)


def spec_bogus_doctype(old, self, v, c):
    if c == "":
        return dt_emitted(old, self, "", "", None)
    if c == ">":
        return dt_emitted(old, self, v[1:], "", None)
    return dt_step(old, self, "bogusDoctypeState", v[1:], "", None)


@contract(TOK + ".doctypeState")
class DoctypeState:
    props = ("C02",)
    modular = False

    def inputs(S):
        return dict(self=dt_tokenizer(S, "doctypeState"))

    def call(i):
        return run_state(i, "doctypeState")

    @ensures("C02")
    def follows_the_standard(old, self, result):
        v = view(old.self.stream)
        if result is not True:
            return False
        return spec_doctype(old, self, v, v[:1])


@contract(TOK + ".beforeDoctypeNameState")
class BeforeDoctypeNameState:
    props = ("C02",)
    modular = False

    def inputs(S):
        return dict(self=dt_tokenizer(S, "beforeDoctypeNameState"))

    def call(i):
        return run_state(i, "beforeDoctypeNameState")

    @ensures("C02")
    def follows_the_standard(old, self, result):
        v = view(old.self.stream)
        if result is not True:
            return False
        return spec_before_doctype_name(old, self, v, v[:1])


@contract(TOK + ".doctypeNameState")
class DoctypeNameState:
    props = ("C02",)
    modular = False

    def inputs(S):
        return dict(self=dt_tokenizer(S, "doctypeNameState"))

    def call(i):
        return run_state(i, "doctypeNameState")

    @ensures("C02")
    def follows_the_standard(old, self, result):
        v = view(old.self.stream)
        if result is not True:
            return False
        return spec_doctype_name(old, self, v, v[:1])


@contract(TOK + ".afterDoctypeNameState")
class AfterDoctypeNameState:
    props = ("C02",)
    modular = False

    def inputs(S):
        return dict(self=dt_tokenizer(S, "afterDoctypeNameState"))

    def call(i):
        return run_state(i, "afterDoctypeNameState")

    @ensures("C02")
    def follows_the_standard(old, self, result):
        v = view(old.self.stream)
        if result is not True:
            return False
        return spec_after_doctype_name(old, self, v, v[:1])


@contract(TOK + ".afterDoctypePublicKeywordState")
class AfterDoctypePublicKeywordState:
    props = ("C02",)
    modular = False

    def inputs(S):
        return dict(self=dt_tokenizer(S, "afterDoctypePublicKeywordState"))

    def call(i):
        return run_state(i, "afterDoctypePublicKeywordState")

    @ensures("C02")
    def follows_the_standard(old, self, result):
        v = view(old.self.stream)
        if result is not True:
            return False
        return spec_after_keyword(old, self, v, v[:1], "beforeDoctypePublicIdentifierState")


@contract(TOK + ".beforeDoctypePublicIdentifierState")
class BeforeDoctypePublicIdentifierState:
    props = ("C02",)
    modular = False

    def inputs(S):
        return dict(self=dt_tokenizer(S, "beforeDoctypePublicIdentifierState"))

    def call(i):
        return run_state(i, "beforeDoctypePublicIdentifierState")

    @ensures("C02")
    def follows_the_standard(old, self, result):
        v = view(old.self.stream)
        if result is not True:
            return False
        return spec_before_identifier(old, self, v, v[:1], "publicId", "doctypePublicIdentifierDoubleQuotedState", "doctypePublicIdentifierSingleQuotedState")


@contract(TOK + ".doctypePublicIdentifierDoubleQuotedState")
class DoctypePublicIdentifierDoubleQuotedState:
    props = ("C02",)
    modular = False

    def inputs(S):
        return dict(self=dt_tokenizer(S, "doctypePublicIdentifierDoubleQuotedState"))

    def call(i):
        return run_state(i, "doctypePublicIdentifierDoubleQuotedState")

    @ensures("C02")
    def follows_the_standard(old, self, result):
        v = view(old.self.stream)
        if result is not True:
            return False
        return spec_identifier_quoted(old, self, v, v[:1], "publicId", "\"", "afterDoctypePublicIdentifierState")


@contract(TOK + ".doctypePublicIdentifierSingleQuotedState")
class DoctypePublicIdentifierSingleQuotedState:
    props = ("C02",)
    modular = False

    def inputs(S):
        return dict(self=dt_tokenizer(S, "doctypePublicIdentifierSingleQuotedState"))

    def call(i):
        return run_state(i, "doctypePublicIdentifierSingleQuotedState")

    @ensures("C02")
    def follows_the_standard(old, self, result):
        v = view(old.self.stream)
        if result is not True:
            return False
        return spec_identifier_quoted(old, self, v, v[:1], "publicId", "'", "afterDoctypePublicIdentifierState")


@contract(TOK + ".afterDoctypePublicIdentifierState")
class AfterDoctypePublicIdentifierState:
    props = ("C02",)
    modular = False

    def inputs(S):
        return dict(self=dt_tokenizer(S, "afterDoctypePublicIdentifierState"))

    def call(i):
        return run_state(i, "afterDoctypePublicIdentifierState")

    @ensures("C02")
    def follows_the_standard(old, self, result):
        v = view(old.self.stream)
        if result is not True:
            return False
        return spec_after_public_identifier(old, self, v, v[:1])


@contract(TOK + ".betweenDoctypePublicAndSystemIdentifiersState")
class BetweenDoctypePublicAndSystemIdentifiersState:
    props = ("C02",)
    modular = False

    def inputs(S):
        return dict(self=dt_tokenizer(S, "betweenDoctypePublicAndSystemIdentifiersState"))

    def call(i):
        return run_state(i, "betweenDoctypePublicAndSystemIdentifiersState")

    @ensures("C02")
    def follows_the_standard(old, self, result):
        v = view(old.self.stream)
        if result is not True:
            return False
        return spec_between_identifiers(old, self, v, v[:1])


@contract(TOK + ".afterDoctypeSystemKeywordState")
class AfterDoctypeSystemKeywordState:
    props = ("C02",)
    modular = False

    def inputs(S):
        return dict(self=dt_tokenizer(S, "afterDoctypeSystemKeywordState"))

    def call(i):
        return run_state(i, "afterDoctypeSystemKeywordState")

    @ensures("C02")
    def follows_the_standard(old, self, result):
        v = view(old.self.stream)
        if result is not True:
            return False
        return spec_after_keyword(old, self, v, v[:1], "beforeDoctypeSystemIdentifierState")


@contract(TOK + ".beforeDoctypeSystemIdentifierState")
class BeforeDoctypeSystemIdentifierState:
    props = ("C02",)
    modular = False

    def inputs(S):
        return dict(self=dt_tokenizer(S, "beforeDoctypeSystemIdentifierState"))

    def call(i):
        return run_state(i, "beforeDoctypeSystemIdentifierState")

    @ensures("C02")
    def follows_the_standard(old, self, result):
        v = view(old.self.stream)
        if result is not True:
            return False
        return spec_before_identifier(old, self, v, v[:1], "systemId", "doctypeSystemIdentifierDoubleQuotedState", "doctypeSystemIdentifierSingleQuotedState")


@contract(TOK + ".doctypeSystemIdentifierDoubleQuotedState")
class DoctypeSystemIdentifierDoubleQuotedState:
    props = ("C02",)
    modular = False

    def inputs(S):
        return dict(self=dt_tokenizer(S, "doctypeSystemIdentifierDoubleQuotedState"))

    def call(i):
        return run_state(i, "doctypeSystemIdentifierDoubleQuotedState")

    @ensures("C02")
    def follows_the_standard(old, self, result):
        v = view(old.self.stream)
        if result is not True:
            return False
        return spec_identifier_quoted(old, self, v, v[:1], "systemId", "\"", "afterDoctypeSystemIdentifierState")


@contract(TOK + ".doctypeSystemIdentifierSingleQuotedState")
class DoctypeSystemIdentifierSingleQuotedState:
    props = ("C02",)
    modular = False

    def inputs(S):
        return dict(self=dt_tokenizer(S, "doctypeSystemIdentifierSingleQuotedState"))

    def call(i):
        return run_state(i, "doctypeSystemIdentifierSingleQuotedState")

    @ensures("C02")
    def follows_the_standard(old, self, result):
        v = view(old.self.stream)
        if result is not True:
            return False
        return spec_identifier_quoted(old, self, v, v[:1], "systemId", "'", "afterDoctypeSystemIdentifierState")


@contract(TOK + ".afterDoctypeSystemIdentifierState")
class AfterDoctypeSystemIdentifierState:
    props = ("C02",)
    modular = False

    def inputs(S):
        return dict(self=dt_tokenizer(S, "afterDoctypeSystemIdentifierState"))

    def call(i):
        return run_state(i, "afterDoctypeSystemIdentifierState")

    @ensures("C02")
    def follows_the_standard(old, self, result):
        v = view(old.self.stream)
        if result is not True:
            return False
        return spec_after_system_identifier(old, self, v, v[:1])


@contract(TOK + ".bogusDoctypeState")
class BogusDoctypeState:
    props = ("C02",)
    modular = False

    def inputs(S):
        return dict(self=dt_tokenizer(S, "bogusDoctypeState"))

    def call(i):
        return run_state(i, "bogusDoctypeState")

    @ensures("C02")
    def follows_the_standard(old, self, result):
        v = view(old.self.stream)
        if result is not True:
            return False
        return spec_bogus_doctype(old, self, v, v[:1])


# ---- script data states (13.2.5.15-31) ---------------------------------------------------------------------------
# All of them only emit character data (compared after concatenation) and move between states; `temporaryBuffer` is
# kept as typed (the standard keeps it lower-cased; it is only ever compared ignoring case).
def sd_step(old, self, state, text, rest):
    return step(old, self, state, text, rest) and token_untouched(old, self)


def tmp_is(self, value):
    return self.temporaryBuffer == value


def tmp_same(old, self):
    return self.temporaryBuffer == old.self.temporaryBuffer


def spec_sd_less_than(old, self, v, c):
    if c == "/":
        return sd_step(old, self, "scriptDataEndTagOpenState", "", v[1:]) and tmp_is(self, "")
    if c == "!":
        return sd_step(old, self, "scriptDataEscapeStartState", "<!", v[1:])
    return sd_step(old, self, "scriptDataState", "<", v)


def spec_sd_escape_start(old, self, v, c, nxt):
    if c == "-":
        return sd_step(old, self, nxt, "-", v[1:])
    return sd_step(old, self, "scriptDataState", "", v)


def spec_sd_escaped(old, self, v, c):
    if c == "":
        return sd_step(old, self, "dataState", "", "")
    if c == "-":
        return sd_step(old, self, "scriptDataEscapedDashState", "-", v[1:])
    if c == "<":
        return sd_step(old, self, "scriptDataEscapedLessThanSignState", "", v[1:])
    if c == "\u0000":
        return sd_step(old, self, "scriptDataEscapedState", "�", v[1:])
    toks = new_tokens(old, self)
    run = text_of(toks)
    rest = view(self.stream)
    return (method_name(self.state) == "scriptDataEscapedState" and len(others(toks)) == 0 and token_untouched(old, self)
            and run != "" and run + rest == v and no_chars(run[1:], "<-\u0000"))


def spec_sd_escaped_dash(old, self, v, c, dashdash):
    if c == "":
        return sd_step(old, self, "dataState", "", "")
    if c == "-":
        return sd_step(old, self, "scriptDataEscapedDashDashState", "-", v[1:])
    if c == "<":
        return sd_step(old, self, "scriptDataEscapedLessThanSignState", "", v[1:])
    if dashdash and c == ">":
        return sd_step(old, self, "scriptDataState", ">", v[1:])
    return sd_step(old, self, "scriptDataEscapedState", nul_or(c), v[1:])


def spec_sd_escaped_less_than(old, self, v, c):
    if c == "/":
        return sd_step(old, self, "scriptDataEscapedEndTagOpenState", "", v[1:]) and tmp_is(self, "")
    if c in LETTERS_SET:
        # "<" is emitted, then the double escape start state emits the letter and starts the buffer with it
        return sd_step(old, self, "scriptDataDoubleEscapeStartState", "<" + c, v[1:]) and tmp_is(self, c)
    return sd_step(old, self, "scriptDataEscapedState", "<", v)


def spec_sd_double_escape_edge(old, self, v, c, if_script, otherwise, fallback):
    """double escape start / end: a delimiter decides by the buffer, a letter joins the buffer, anything else is
    reconsumed in `fallback`"""
    tmp = old.self.temporaryBuffer
    if c != "" and (c in SPACE or c == "/" or c == ">"):
        nxt = if_script if tmp.lower() == "script" else otherwise
        return sd_step(old, self, nxt, c, v[1:]) and tmp_same(old, self)
    if c in LETTERS_SET:
        return sd_step(old, self, method_name(old.self.state), c, v[1:]) and tmp_is(self, tmp + c)
    return sd_step(old, self, fallback, "", v) and tmp_same(old, self)


def spec_sd_double_escaped(old, self, v, c, me):
    """me: 0 double escaped, 1 ... dash, 2 ... dash dash"""
    if c == "":
        return sd_step(old, self, "dataState", "", "")
    if c == "-":
        nxt = "scriptDataDoubleEscapedDashState" if me == 0 else "scriptDataDoubleEscapedDashDashState"
        return sd_step(old, self, nxt, "-", v[1:])
    if c == "<":
        return sd_step(old, self, "scriptDataDoubleEscapedLessThanSignState", "<", v[1:])
    if me == 2 and c == ">":
        return sd_step(old, self, "scriptDataState", ">", v[1:])
    return sd_step(old, self, "scriptDataDoubleEscapedState", nul_or(c), v[1:])


def spec_sd_double_escaped_less_than(old, self, v, c):
    if c == "/":
        return sd_step(old, self, "scriptDataDoubleEscapeEndState", "/", v[1:]) and tmp_is(self, "")
    return sd_step(old, self, "scriptDataDoubleEscapedState", "", v)


@contract(TOK + ".scriptDataLessThanSignState")
class ScriptDataLessThanSignState:
    props = ("C02",)
    modular = False

    def inputs(S):
        return dict(self=tokenizer(S, "scriptDataLessThanSignState", "any"))

    def call(i):
        return run_state(i, "scriptDataLessThanSignState")

    @ensures("C02")
    def follows_the_standard(old, self, result):
        v = view(old.self.stream)
        if result is not True:
            return False
        return spec_sd_less_than(old, self, v, v[:1])


@contract(TOK + ".scriptDataEndTagOpenState")
class ScriptDataEndTagOpenState:
    props = ("C02",)
    modular = False

    def inputs(S):
        return dict(self=tokenizer(S, "scriptDataEndTagOpenState", "any"))

    def call(i):
        return run_state(i, "scriptDataEndTagOpenState")

    @ensures("C02")
    def follows_the_standard(old, self, result):
        v = view(old.self.stream)
        if result is not True:
            return False
        return end_tag_open(old, self, result, "scriptDataState", "scriptDataEndTagNameState")


@contract(TOK + ".scriptDataEndTagNameState")
class ScriptDataEndTagNameState:
    props = ("C02",)
    modular = False

    def inputs(S):
        return dict(self=tokenizer(S, "scriptDataEndTagNameState", "any"))

    def call(i):
        return run_state(i, "scriptDataEndTagNameState")

    @ensures("C02")
    def follows_the_standard(old, self, result):
        v = view(old.self.stream)
        if result is not True:
            return False
        return end_tag_name(old, self, result, "scriptDataState", "scriptDataEndTagNameState")


@contract(TOK + ".scriptDataEscapeStartState")
class ScriptDataEscapeStartState:
    props = ("C02",)
    modular = False

    def inputs(S):
        return dict(self=tokenizer(S, "scriptDataEscapeStartState", "any"))

    def call(i):
        return run_state(i, "scriptDataEscapeStartState")

    @ensures("C02")
    def follows_the_standard(old, self, result):
        v = view(old.self.stream)
        if result is not True:
            return False
        return spec_sd_escape_start(old, self, v, v[:1], "scriptDataEscapeStartDashState")


@contract(TOK + ".scriptDataEscapeStartDashState")
class ScriptDataEscapeStartDashState:
    props = ("C02",)
    modular = False

    def inputs(S):
        return dict(self=tokenizer(S, "scriptDataEscapeStartDashState", "any"))

    def call(i):
        return run_state(i, "scriptDataEscapeStartDashState")

    @ensures("C02")
    def follows_the_standard(old, self, result):
        v = view(old.self.stream)
        if result is not True:
            return False
        return spec_sd_escape_start(old, self, v, v[:1], "scriptDataEscapedDashDashState")


@contract(TOK + ".scriptDataEscapedState")
class ScriptDataEscapedState:
    props = ("C02",)
    modular = False

    def inputs(S):
        return dict(self=tokenizer(S, "scriptDataEscapedState", "any"))

    def call(i):
        return run_state(i, "scriptDataEscapedState")

    @ensures("C02")
    def follows_the_standard(old, self, result):
        v = view(old.self.stream)
        if result is not True:
            return False
        return spec_sd_escaped(old, self, v, v[:1])


@contract(TOK + ".scriptDataEscapedDashState")
class ScriptDataEscapedDashState:
    props = ("C02",)
    modular = False

    def inputs(S):
        return dict(self=tokenizer(S, "scriptDataEscapedDashState", "any"))

    def call(i):
        return run_state(i, "scriptDataEscapedDashState")

    @ensures("C02")
    def follows_the_standard(old, self, result):
        v = view(old.self.stream)
        if result is not True:
            return False
        return spec_sd_escaped_dash(old, self, v, v[:1], False)


@contract(TOK + ".scriptDataEscapedDashDashState")
class ScriptDataEscapedDashDashState:
    props = ("C02",)
    modular = False

    def inputs(S):
        return dict(self=tokenizer(S, "scriptDataEscapedDashDashState", "any"))

    def call(i):
        return run_state(i, "scriptDataEscapedDashDashState")

    @ensures("C02")
    def follows_the_standard(old, self, result):
        v = view(old.self.stream)
        if result is not True:
            return False
        return spec_sd_escaped_dash(old, self, v, v[:1], True)


@contract(TOK + ".scriptDataEscapedLessThanSignState")
class ScriptDataEscapedLessThanSignState:
    props = ("C02",)
    modular = False

    def inputs(S):
        return dict(self=tokenizer(S, "scriptDataEscapedLessThanSignState", "any"))

    def call(i):
        return run_state(i, "scriptDataEscapedLessThanSignState")

    @ensures("C02")
    def follows_the_standard(old, self, result):
        v = view(old.self.stream)
        if result is not True:
            return False
        return spec_sd_escaped_less_than(old, self, v, v[:1])


@contract(TOK + ".scriptDataEscapedEndTagOpenState")
class ScriptDataEscapedEndTagOpenState:
    props = ("C02",)
    modular = False

    def inputs(S):
        return dict(self=tokenizer(S, "scriptDataEscapedEndTagOpenState", "any"))

    def call(i):
        return run_state(i, "scriptDataEscapedEndTagOpenState")

    @requires
    def buffer_was_emptied_by_the_less_than_sign_state(self):
        return self.temporaryBuffer == ""

    @ensures("C02")
    def follows_the_standard(old, self, result):
        v = view(old.self.stream)
        if result is not True:
            return False
        return end_tag_open(old, self, result, "scriptDataEscapedState", "scriptDataEscapedEndTagNameState")


@contract(TOK + ".scriptDataEscapedEndTagNameState")
class ScriptDataEscapedEndTagNameState:
    props = ("C02",)
    modular = False

    def inputs(S):
        return dict(self=tokenizer(S, "scriptDataEscapedEndTagNameState", "any"))

    def call(i):
        return run_state(i, "scriptDataEscapedEndTagNameState")

    @ensures("C02")
    def follows_the_standard(old, self, result):
        v = view(old.self.stream)
        if result is not True:
            return False
        return end_tag_name(old, self, result, "scriptDataEscapedState", "scriptDataEscapedEndTagNameState")


@contract(TOK + ".scriptDataDoubleEscapeStartState")
class ScriptDataDoubleEscapeStartState:
    props = ("C02",)
    modular = False

    def inputs(S):
        return dict(self=tokenizer(S, "scriptDataDoubleEscapeStartState", "any"))

    def call(i):
        return run_state(i, "scriptDataDoubleEscapeStartState")

    @ensures("C02")
    def follows_the_standard(old, self, result):
        v = view(old.self.stream)
        if result is not True:
            return False
        return spec_sd_double_escape_edge(old, self, v, v[:1], "scriptDataDoubleEscapedState", "scriptDataEscapedState", "scriptDataEscapedState")


@contract(TOK + ".scriptDataDoubleEscapedState")
class ScriptDataDoubleEscapedState:
    props = ("C02",)
    modular = False

    def inputs(S):
        return dict(self=tokenizer(S, "scriptDataDoubleEscapedState", "any"))

    def call(i):
        return run_state(i, "scriptDataDoubleEscapedState")

    @ensures("C02")
    def follows_the_standard(old, self, result):
        v = view(old.self.stream)
        if result is not True:
            return False
        return spec_sd_double_escaped(old, self, v, v[:1], 0)


@contract(TOK + ".scriptDataDoubleEscapedDashState")
class ScriptDataDoubleEscapedDashState:
    props = ("C02",)
    modular = False

    def inputs(S):
        return dict(self=tokenizer(S, "scriptDataDoubleEscapedDashState", "any"))

    def call(i):
        return run_state(i, "scriptDataDoubleEscapedDashState")

    @ensures("C02")
    def follows_the_standard(old, self, result):
        v = view(old.self.stream)
        if result is not True:
            return False
        return spec_sd_double_escaped(old, self, v, v[:1], 1)


@contract(TOK + ".scriptDataDoubleEscapedDashDashState")
class ScriptDataDoubleEscapedDashDashState:
    props = ("C02",)
    modular = False

    def inputs(S):
        return dict(self=tokenizer(S, "scriptDataDoubleEscapedDashDashState", "any"))

    def call(i):
        return run_state(i, "scriptDataDoubleEscapedDashDashState")

    @ensures("C02")
    def follows_the_standard(old, self, result):
        v = view(old.self.stream)
        if result is not True:
            return False
        return spec_sd_double_escaped(old, self, v, v[:1], 2)


@contract(TOK + ".scriptDataDoubleEscapedLessThanSignState")
class ScriptDataDoubleEscapedLessThanSignState:
    props = ("C02",)
    modular = False

    def inputs(S):
        return dict(self=tokenizer(S, "scriptDataDoubleEscapedLessThanSignState", "any"))

    def call(i):
        return run_state(i, "scriptDataDoubleEscapedLessThanSignState")

    @ensures("C02")
    def follows_the_standard(old, self, result):
        v = view(old.self.stream)
        if result is not True:
            return False
        return spec_sd_double_escaped_less_than(old, self, v, v[:1])


@contract(TOK + ".scriptDataDoubleEscapeEndState")
class ScriptDataDoubleEscapeEndState:
    props = ("C02",)
    modular = False

    def inputs(S):
        return dict(self=tokenizer(S, "scriptDataDoubleEscapeEndState", "any"))

    def call(i):
        return run_state(i, "scriptDataDoubleEscapeEndState")

    @ensures("C02")
    def follows_the_standard(old, self, result):
        v = view(old.self.stream)
        if result is not True:
            return False
        return spec_sd_double_escape_edge(old, self, v, v[:1], "scriptDataEscapedState", "scriptDataDoubleEscapedState", "scriptDataDoubleEscapedState")



# ---- character reference in data / RCDATA (13.2.5.72 as html5lib splits it) ------------------------------------------
# the reference itself is consumeEntity's contract (C14); these two states call it with no additional allowed
# character and not as part of an attribute, and return to the text state they came from
def _after_reference(old, self, result, back_to):
    return (result is True and method_name(self.state) == back_to and self.ghost_entity_call == (None, False)
            and token_untouched(old, self))


@contract(TOK + ".entityDataState")
class EntityDataState:
    props = ("C02",)

    def inputs(S):
        return dict(self=tokenizer(S, "entityDataState", "any"))

    @ensures("C02")
    def follows_the_standard(old, self, result):
        return _after_reference(old, self, result, "dataState")


@contract(TOK + ".characterReferenceInRcdata")
class CharacterReferenceInRcdata:
    props = ("C02",)

    def inputs(S):
        return dict(self=tokenizer(S, "characterReferenceInRcdata", "any"))

    @ensures("C02")
    def follows_the_standard(old, self, result):
        return _after_reference(old, self, result, "rcdataState")


# ---- HTMLTokenizer.__iter__: draining the queue ---------------------------------------------------------------------
# One arbitrary turn of the outer loop: the current state method runs once (abstract: it queues up to two tokens and the
# stream records up to one error; by the state contracts above a state that answers False -- end of input -- queues
# nothing), then every stream error is yielded as a ParseError token and every queued token is yielded, in order, and
# both queues are empty again.  Bounded by the number of tokens one state call queues (the real maximum is 3).
def _iter_havoc(S, L):
    t = L.self
    t.fields["tokenQueue"] = S.list([], cls="deque")
    t.fields["stream"].fields["errors"] = S.list([])


def _iter_inv(self):
    return len(self.tokenQueue) == 0 and len(self.stream.errors) == 0


def _iter_step(yielded, self):
    want = self.ghost_queued
    errs = self.ghost_errors
    if len(yielded) != len(errs) + len(want):
        return False
    for i in range(len(errs)):
        if not (yielded[i]["type"] == PARSEERROR and yielded[i]["data"] == errs[i]):
            return False
    for i in range(len(want)):
        if not same_object(yielded[len(errs) + i], want[i]):
            return False
    return len(self.tokenQueue) == 0 and len(self.stream.errors) == 0


_iter_step._bounded = "one state call queues at most 2 tokens and the stream records at most 1 error"


@contract(TOK + ".__iter__")
class TokenizerIter:
    props = ("C02",)
    modular = False

    def inputs(S):
        from pyvc.values import NativeFn
        stream = S.abstract("Stream", {"errors": S.list([])})
        t = S.obj(TOK, stream=stream, tokenQueue=S.list([], cls="deque"), ghost_queued=S.list([]), ghost_errors=S.list([]))

        def state(I, args, kwargs):
            k = S.choice(3)
            e = S.choice(2)
            toks = [S.dict({"type": S.int("type%d" % i), "data": S.str("data%d" % i)}) for i in range(k)]
            errs = [S.str("errorcode")] if e else []
            t.fields["tokenQueue"].items.extend(toks)
            stream.fields["errors"].items.extend(errs)
            t.fields["ghost_queued"] = S.list(list(toks))
            t.fields["ghost_errors"] = S.list(list(errs))
            more = S.bool("more_input")
            if k or e:
                S.assume(more.z)          # a state that reports the end of input has queued nothing (state contracts)
            return more
        t.fields["state"] = NativeFn("state", state)
        return dict(self=t)

    loops = {"While1": LoopSpec(havoc=_iter_havoc, invariant=_iter_inv, props=("C02",),
                                step=[clause("errors_then_tokens_in_order", _iter_step, "C02")])}

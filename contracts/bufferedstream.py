"""Contract for BufferedStream (C05): the wrapper html5lib puts around byte streams that cannot seek, so that the
encoding detection can rewind.  Abstract view: the bytes delivered so far are  b"".join(buffer) ; the read position
is tell().  read(n) returns the next bytes of that sequence (fetching from the underlying stream only what the buffer
does not hold), seek(p) moves the position without touching the data, and the representation invariant is kept.
Bounded in the number of buffered chunks (pyvc lists have concrete length); chunk contents, offsets and read sizes
are arbitrary."""
from pyvc.contract import contract, requires, ensures, bounded

BS = "html5lib._inputstream.BufferedStream"
KMAX = 3
BOUND = "buffers of at most %d chunks (arbitrary contents), every position in them; one underlying read of arbitrary result" % KMAX


def native_buffered(i):
    """the real BufferedStream in the state of the witness, over a stub stream that answers with `fetched`"""
    from html5lib._inputstream import BufferedStream

    class Under(object):
        def __init__(self):
            self.ghost_reads = []

        def read(self, n):
            self.ghost_reads.append(n)
            return (i.get("fetched") or b"")[:n]
    u = Under()
    b = BufferedStream(u)
    b.buffer = list(i["self"]["buffer"])
    b.position = list(i["self"]["position"])
    i["self"], i["under"] = b, u
    return b


def buffered(S):
    from pyvc.values import mk_int
    z3 = S.z3
    k = S.choice(KMAX + 1)
    chunks = [S.bytes("chunk%d" % i) for i in range(k)]
    fetched = S.bytes("fetched")

    def read(I, args, kwargs):
        n = args[0]
        from pyvc.values import zi
        I.ctx.assume(z3.Length(fetched.z) <= zi(n))
        under.fields["ghost_reads"].items.append(n)
        return fetched
    under = S.abstract("Underlying", {"ghost_reads": S.list([])}, read=read)
    if k == 0:
        idx, off = -1, 0
    else:
        idx = S.choice(k)
        off = S.int("offset", lo=0)
        S.assume(off.z <= z3.Length(chunks[idx].z))
    b = S.obj(BS, stream=under, buffer=S.list(chunks), position=S.list([idx, off]))
    return b, chunks, fetched, under, idx, off


def content(self):
    return b"".join(self.buffer)


def logical_position(self):
    pos = 0
    i = 0
    while i < self.position[0]:
        pos = pos + len(self.buffer[i])
        i = i + 1
    return pos + self.position[1]


def rep(self):
    if len(self.buffer) == 0:
        return self.position[0] == -1 and self.position[1] == 0
    return (0 <= self.position[0] and self.position[0] < len(self.buffer)
            and 0 <= self.position[1] and self.position[1] <= len(self.buffer[self.position[0]]))


@contract(BS + ".tell")
class Tell:
    props = ("C05",)
    modular = False

    def inputs(S):
        b, chunks, fetched, under, idx, off = buffered(S)
        return dict(self=b)

    def call(i):
        return native_buffered(i).tell()

    @ensures("C05")
    @bounded(BOUND)
    def is_the_logical_position(self, result):
        return result == logical_position(self)


@contract(BS + ".read")
class Read:
    props = ("C05",)
    modular = False

    def inputs(S):
        b, chunks, fetched, under, idx, off = buffered(S)
        n = S.int("bytes", lo=1)
        return dict(self=b, bytes=n, fetched=fetched, under=under)

    def call(i):
        return native_buffered(i).read(i["bytes"])

    @ensures("C05")
    @bounded(BOUND)
    def returns_the_next_bytes_and_advances(old, self, bytes, result, fetched, under):
        before = content(old.self)
        p0 = logical_position(old.self)
        have = len(before) - p0
        if not rep(self):
            return False
        if have >= bytes:
            # served from the buffer alone: nothing is fetched, nothing is added
            return (result == before[p0:p0 + bytes] and content(self) == before and len(under.ghost_reads) == 0
                    and logical_position(self) == p0 + bytes)
        # the buffered remainder, then exactly one fetch of what is missing, which is appended to the buffer
        return (result == before[p0:] + fetched and content(self) == before + fetched
                and len(under.ghost_reads) == 1 and under.ghost_reads[0] == bytes - have
                and logical_position(self) == len(before) + len(fetched))


@contract(BS + ".seek")
class Seek:
    props = ("C05",)
    modular = False

    def inputs(S):
        b, chunks, fetched, under, idx, off = buffered(S)
        return dict(self=b, pos=S.int("pos", lo=0))

    def call(i):
        return native_buffered(i).seek(i["pos"])

    @requires
    def within_what_has_been_buffered(self, pos):
        return len(self.buffer) > 0 and pos <= len(content(self))

    @ensures("C05")
    @bounded(BOUND)
    def moves_the_position_only(old, self, pos):
        return rep(self) and logical_position(self) == pos and content(self) == content(old.self)

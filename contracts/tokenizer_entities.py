"""Contracts for the character-reference functions of the tokenizer (C14)."""
from pyvc.contract import contract, requires, ensures, LoopSpec, clause, implies, in_chars, no_chars, is_str, int_value
from spec.stream import view
from spec.charrefs import numeric_ref
from contracts.stream import abstract_stream

DIGITS = "0123456789"
HEXDIGITS = "0123456789abcdefABCDEF"
TOK = "html5lib._tokenizer.HTMLTokenizer"


def tokenizer(S):
    return S.obj(TOK, stream=abstract_stream(S), tokenQueue=S.anylist("tokenQueue", cls="deque"))


def allowed_of(isHex):
    return HEXDIGITS if isHex else DIGITS


def num_havoc(S, L):
    L.charStack = S.symlist("charStack")
    L.c = S.one_of(None, lambda: S.char("c"))
    L.self.fields["stream"].fields["ghost_view"] = S.str("view@loop")


def num_inv(self, isHex, charStack, c, old):
    consumed = "".join(charStack)
    cur = "" if c is None else c
    return (consumed + cur + view(self.stream) == view(old.self.stream)
            and in_chars(consumed, allowed_of(isHex))
            and (c is not None or view(self.stream) == "")
            and (consumed != "" or (c is not None and c in allowed_of(isHex))))


def num_measure(self, c):
    return len(view(self.stream)) + (0 if c is None else 1)


def _num_havoc(S, env):
    # frame: the callee consumes input and may queue parse errors; nothing else changes
    t = env.d["self"]
    t.fields["stream"].fields["ghost_view"] = S.str("view'")
    t.fields["tokenQueue"] = S.anylist("tokenQueue'", cls="deque")


@contract(TOK + ".consumeNumberEntity")
class ConsumeNumberEntity:
    props = ("C14",)
    havoc = _num_havoc
    split_depth = 4

    def result(S, env):
        return S.str("char")

    def inputs(S):
        return dict(self=tokenizer(S), isHex=S.one_of(False, True))

    @requires
    def starts_with_a_digit(self, isHex):
        # the only caller (consumeEntity) has seen a digit of the right kind and put it back
        return view(self.stream) != "" and view(self.stream)[0] in allowed_of(isHex)

    loops = {"While1": LoopSpec(havoc=num_havoc, invariant=num_inv, decreases=num_measure, props=("C14",))}

    @ensures("C14")
    def value_is_the_standards(old, self, isHex, result, final):
        digits = "".join(final.charStack)
        v0 = view(old.self.stream)
        rest = view(self.stream)
        # digits is the maximal non-empty run of (hex) digits at the start of the input, and exactly
        # the digits plus an optional ';' are consumed ...
        if not (digits != "" and in_chars(digits, allowed_of(isHex))):
            return False
        if not ((v0 == digits + ";" + rest) or (v0 == digits + rest and not rest.startswith(";"))):
            return False
        if not (v0 != digits + rest or rest == "" or rest[0] not in allowed_of(isHex)):
            return False
        # ... and they are read in the right base and decoded as the standard prescribes
        return result == numeric_ref(int_value(digits, 16 if isHex else 10))

    def call(i):
        from html5lib._tokenizer import HTMLTokenizer
        from collections import deque
        t = HTMLTokenizer(i["self"]["stream"]["ghost_view"])
        t.tokenQueue = deque([])
        r = t.consumeNumberEntity(i["isHex"])
        rest = ""
        while True:
            ch = t.stream.char()
            if ch is None:
                break
            rest += ch
        i["observed_rest"] = rest
        return r


# ---------------------------------------------------------------------------------------------------
# consumeEntity: named references (and dispatch to the numeric function)
from html.entities import html5 as ENTITIES
from pyvc.contract import is_key_prefix, some_key_is_prefix_of, longest_key_prefix

SPACE = "\t\n\x0c \r"
ALNUM = "abcdefghijklmnopqrstuvwxyzABCDEFGHIJKLMNOPQRSTUVWXYZ0123456789"
ALNUM_SET = frozenset(ALNUM)


def ent_havoc(S, L):
    last = S.one_of(None, lambda: S.char("last"))
    L.charStack = S.charlist("scanned", tail=[last])
    L.self.fields["stream"].fields["ghost_view"] = S.str("view@scan")


def ent_inv(self, charStack, old):
    scanned = "".join(charStack[:-1])
    last = charStack[-1]
    cur = "" if last is None else last
    return (scanned + cur + view(self.stream) == view(old.self.stream)
            and (last is not None or view(self.stream) == "")
            and (scanned == "" or is_key_prefix(scanned)))


def ent_measure(self, charStack):
    return len(view(self.stream)) + (0 if charStack[-1] is None else 1)


def attr_token(S):
    """the start tag under construction with at least one attribute [name, value]"""
    attrs = S.anylist("attrs", tail=[S.list([S.str("attrname"), S.str("attrvalue")])])
    return S.dict({"type": 3, "name": S.str("tagname"), "data": attrs, "selfClosing": False})


def _entity_havoc(S, env):
    # frame of consumeEntity as callers see it: input is consumed, tokens may be queued, and in an
    # attribute the value of the attribute under construction grows
    t = env.d["self"]
    t.fields["stream"].fields["ghost_view"] = S.str("view_after_reference")
    t.fields["tokenQueue"] = S.anylist("tokenQueue_after_reference", cls="deque")
    if env.d.get("fromAttribute"):
        t.fields["currentToken"].entries["data"][0].items[-1].items[1] = S.str("value_after_reference")
    # ghost: how the reference consumer was called (the calling states' contracts name it)
    t.fields["ghost_entity_call"] = (env.d.get("allowedChar"), bool(env.d.get("fromAttribute")))


@contract(TOK + ".consumeEntity")
class ConsumeEntity:
    props = ("C14",)
    havoc = _entity_havoc
    split_depth = 7

    def inputs(S):
        t = tokenizer(S)
        fromAttribute = S.one_of(False, True)
        allowed = S.one_of(None, lambda: S.char("allowedChar"))
        if fromAttribute:
            t.fields["currentToken"] = attr_token(S)
        return dict(self=t, allowedChar=allowed, fromAttribute=fromAttribute)

    def globals(S):
        return {"html5lib._tokenizer.entitiesTrie": S.abstract_trie()}

    loops = {"While1": LoopSpec(havoc=ent_havoc, invariant=ent_inv, decreases=ent_measure, props=("C14",))}

    @ensures("C14")
    def not_a_reference(old, self, allowedChar, fromAttribute, final):
        # '&' followed by whitespace, '<', '&', end of input or the additional allowed character:
        # the ampersand is literal and nothing is consumed
        v = view(old.self.stream)
        if v == "" or v[0] in SPACE or v[0] == "<" or v[0] == "&" or (allowedChar is not None and v[0] == allowedChar):
            return final.output == "&" and view(self.stream) == v
        return True

    @ensures("C14")
    def named_reference(old, self, allowedChar, fromAttribute, final):
        v = view(old.self.stream)
        if v == "" or v[0] in SPACE or v[0] == "<" or v[0] == "&" or v[0] == "#" or (allowedChar is not None and v[0] == allowedChar):
            return True
        scanned = "".join(final.charStack)
        rest = view(self.stream)
        # (1) nothing is lost: what was scanned is in `scanned`, the rest is back in the stream
        if scanned + rest != v:
            return False
        # (2) the scan is maximal: every proper prefix can still become a name; the next character cannot extend it
        if not (scanned == "" or is_key_prefix(scanned)):
            return False
        if not (rest == "" or not is_key_prefix(scanned + rest[:1])):
            return False
        # (3) decoding: the longest name inside the scanned text, with the attribute-value exception
        if not some_key_is_prefix_of(scanned):
            return final.output == "&" + scanned
        name = longest_key_prefix(scanned)
        after = (scanned + rest)[len(name):]
        if name[-1] != ";" and fromAttribute and (after[:1] in ALNUM_SET or after[:1] == "="):
            return final.output == "&" + scanned
        return final.output == ENTITIES[name] + scanned[len(name):]

    @ensures("C14")
    def numeric_without_digits(old, self, allowedChar, final):
        v = view(old.self.stream)
        if v.startswith("#") and (allowedChar is None or allowedChar != "#"):
            if len(v) >= 2 and (v[1] == "x" or v[1] == "X"):
                if len(v) >= 3 and v[2] in HEXDIGITS:
                    return True
                return final.output == "&" + v[:2] and view(self.stream) == v[2:]
            if len(v) >= 2 and v[1] in DIGITS:
                return True
            return final.output == "&#" and view(self.stream) == v[1:]
        return True

    @ensures("C14")
    def output_goes_to_the_right_place(old, self, fromAttribute, final):
        if fromAttribute:
            return self.currentToken["data"][-1][1] == old.self.currentToken["data"][-1][1] + final.output
        return (len(self.tokenQueue) >= 1 and self.tokenQueue[-1]["data"] == final.output
                and self.tokenQueue[-1]["type"] == (2 if final.output in ("\t", "\n", "\x0c", " ", "\r") else 1))

    def candidates():
        """real inputs shaped like the cases of the contract: every legacy (semicolon-less) name, alone and
        continued by the first characters of longer names, followed by characters of each class"""
        from html.entities import html5
        keys = sorted(html5)
        for n in keys:
            if n.endswith(";"):
                conts = [""]
            else:
                conts = sorted({k[len(n):len(n) + j] for k in keys if k.startswith(n) and len(k) > len(n) for j in (1, 2)} | {""})
            for c in conts:
                for x in ("", '"', "=", "q", "5", ";", " ", "<"):
                    for fa in (False, True):
                        yield {"self": {"stream": {"ghost_view": n + c + x}}, "allowedChar": '"' if fa else None,
                               "fromAttribute": fa}

    def call(i):
        # lifted replay: run the real tokenizer method on the witness input and reconstruct the two
        # internal values the clauses name (`output`, and the scanned characters) from observable effects
        from html5lib._tokenizer import HTMLTokenizer
        from collections import deque
        from pyvc.contract import Old
        v0 = i["self"]["stream"]["ghost_view"]
        t = HTMLTokenizer(v0)
        t.tokenQueue = deque([])
        if i["fromAttribute"]:
            t.currentToken = {"type": 3, "name": "a", "data": [["x", "seed"]], "selfClosing": False}
        t.consumeEntity(allowedChar=i["allowedChar"], fromAttribute=i["fromAttribute"])
        rest = ""
        while True:
            ch = t.stream.char()
            if ch is None:
                break
            rest += ch
        if i["fromAttribute"]:
            output = t.currentToken["data"][-1][1][len("seed"):]
        else:
            output = [x for x in t.tokenQueue if x["type"] in (1, 2)][-1]["data"]
        scanned = v0[:len(v0) - len(rest)]

        class _S(object):
            pass
        stream = _S()
        stream.is_abstract, stream.ghost_view = True, rest
        me = _S()
        me.stream, me.tokenQueue, me.currentToken = stream, list(t.tokenQueue), t.currentToken
        old_stream = _S()
        old_stream.is_abstract, old_stream.ghost_view = True, v0
        old_me = _S()
        old_me.stream = old_stream
        old_me.currentToken = {"type": 3, "name": "a", "data": [["x", "seed"]], "selfClosing": False}
        i["self"] = me
        i["old"] = Old({"self": old_me})
        i["final"] = Old({"output": output, "charStack": list(scanned)})
        return None

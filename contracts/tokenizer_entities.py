"""Contracts for the character-reference functions of the tokenizer (C14)."""
from pyvc.contract import contract, requires, ensures, LoopSpec, clause, implies, in_chars, no_chars, is_str, int_value
from spec.stream import view
from spec.charrefs import numeric_ref
from contracts.stream import abstract_stream

DIGITS = "0123456789"
HEXDIGITS = "0123456789abcdefABCDEF"
TOK = "html5lib._tokenizer.HTMLTokenizer"


def tokenizer(S):
    return S.obj(TOK, stream=abstract_stream(S), tokenQueue=S.anylist("tokenQueue", cls="deque"))


def allowed_of(isHex):
    return HEXDIGITS if isHex else DIGITS


def num_havoc(S, L):
    L.charStack = S.symlist("charStack")
    L.c = S.one_of(None, lambda: S.char("c"))
    L.self.fields["stream"].fields["ghost_view"] = S.str("view@loop")


def num_inv(self, isHex, charStack, c, old):
    consumed = "".join(charStack)
    cur = "" if c is None else c
    return (consumed + cur + view(self.stream) == view(old.self.stream)
            and in_chars(consumed, allowed_of(isHex))
            and (c is not None or view(self.stream) == "")
            and (consumed != "" or (c is not None and c in allowed_of(isHex))))


def num_measure(self, c):
    return len(view(self.stream)) + (0 if c is None else 1)


@contract(TOK + ".consumeNumberEntity")
class ConsumeNumberEntity:
    props = ("C14",)
    modular = False

    def inputs(S):
        return dict(self=tokenizer(S), isHex=S.one_of(False, True))

    @requires
    def starts_with_a_digit(self, isHex):
        # the only caller (consumeEntity) has seen a digit of the right kind and put it back
        return view(self.stream) != "" and view(self.stream)[0] in allowed_of(isHex)

    loops = {"While1": LoopSpec(havoc=num_havoc, invariant=num_inv, decreases=num_measure, props=("C14",))}

    @ensures("C14")
    def value_is_the_standards(old, self, isHex, result, final):
        digits = "".join(final.charStack)
        tail = view(old.self.stream)[len(digits):]
        # digits is the maximal run of (hex) digits at the start of the input ...
        if not (view(old.self.stream).startswith(digits) and digits != "" and in_chars(digits, allowed_of(isHex))
                and (tail == "" or tail[0] not in allowed_of(isHex))):
            return False
        # ... it is read in the right base and decoded as the standard prescribes ...
        if result != numeric_ref(int_value(digits, 16 if isHex else 10)):
            return False
        # ... and exactly the digits plus an optional ';' are consumed
        if tail.startswith(";"):
            return view(self.stream) == tail[1:]
        return view(self.stream) == tail

    def call(i):
        from html5lib._tokenizer import HTMLTokenizer
        from collections import deque
        t = HTMLTokenizer(i["self"]["stream"]["ghost_view"])
        t.tokenQueue = deque([])
        r = t.consumeNumberEntity(i["isHex"])
        rest = ""
        while True:
            ch = t.stream.char()
            if ch is None:
                break
            rest += ch
        i["observed_rest"] = rest
        return r

"""Contracts for html5lib/filters/whitespace.py (C17)."""
from pyvc.contract import (contract, requires, ensures, LoopSpec, clause, implies, iff, same_object,
                           re_sub_class_plus, re_equiv, in_chars, is_int)

SPACE = "\t\n\x0c \r"          # the five ASCII whitespace characters of the HTML standard
PRESERVE = ("pre", "textarea", "style", "script", "xmp", "iframe", "noembed", "noframes", "noscript")
TOKEN_TYPES = ("Doctype", "Characters", "SpaceCharacters", "StartTag", "EndTag", "EmptyTag", "Comment",
               "Entity", "SerializeError")


def collapse(text):
    """every maximal run of ASCII whitespace becomes one space (the meaning of re.sub('[S]+', ' ', .))"""
    return re_sub_class_plus(SPACE, " ", text)


@contract("html5lib.filters.whitespace.collapse_spaces")
class CollapseSpaces:
    props = ("C17",)
    modular = False

    def inputs(S):
        return dict(text=S.str("text"))

    @ensures("C17")
    def is_collapse(text, result):
        return result == collapse(text)

    @ensures("C17")
    def regex_is_the_five_space_characters(text, result):
        # SPACES_REGEX (built at import from constants.spaceCharacters) denotes exactly [\t\n\f \r]+
        from html5lib.filters.whitespace import SPACES_REGEX
        return re_equiv(SPACES_REGEX, "[\t\n\x0c \r]+")

    @ensures("C17")
    def keeps_text_without_ascii_space(text, result):
        # in particular non-ASCII spaces (U+00A0, U+2003, ...) are kept
        return implies(not_any_space(text), result == text)

    def call(i):
        from html5lib.filters.whitespace import collapse_spaces
        return collapse_spaces(i["text"])


def not_any_space(text):
    from pyvc.contract import no_chars
    return no_chars(text, SPACE)


def ws_token(S, name):
    z3 = S.z3
    t = S.str_in(name + ".type", TOKEN_TYPES)
    d = S.dict()
    d.entries["type"] = [t, True]
    is_tag = z3.Or(*[t.z == z3.StringVal(x) for x in ("StartTag", "EndTag", "EmptyTag")])
    d.entries["name"] = [S.str(name + ".name"), z3.Or(is_tag, t.z == z3.StringVal("Doctype"), t.z == z3.StringVal("Entity"))]
    is_text = z3.Or(t.z == z3.StringVal("Characters"), t.z == z3.StringVal("SpaceCharacters"), t.z == z3.StringVal("Comment"))
    attrs = S.dict()
    attrs.entries[(None, "a")] = [S.str(name + ".attr"), S.bool(name + ".has_attr").z]
    data = S.one_of(lambda: attrs, lambda: S.str(name + ".text"))
    if isinstance(data, type(attrs)):
        S.assume(z3.Or(t.z == z3.StringVal("StartTag"), t.z == z3.StringVal("EmptyTag")))
        d.entries["data"] = [data, True]
    else:
        S.assume(z3.Not(z3.Or(t.z == z3.StringVal("StartTag"), t.z == z3.StringVal("EmptyTag"))))
        d.entries["data"] = [data, is_text]
    return d


def havoc(S, L):
    L.preserve = S.int("preserve")


def inv(preserve):
    return is_int(preserve) and preserve >= 0


def element(S, L):
    return ws_token(S, "token")


def step_emits_the_token(yielded, token):
    return len(yielded) == 1 and same_object(yielded[0], token)


def step_non_text_untouched(token, pre_element):
    return implies(token["type"] not in ("Characters", "SpaceCharacters"), token == pre_element)


def step_only_data_changes(token, pre_element):
    if token["type"] != pre_element["type"]:
        return False
    if token["type"] in ("StartTag", "EndTag", "EmptyTag", "Doctype", "Entity"):
        return token["name"] == pre_element["name"]
    return True


def step_text(token, pre_element, pre):
    t = pre_element["type"]
    if t == "Characters":
        if pre.preserve > 0:
            return token["data"] == pre_element["data"]
        return token["data"] == collapse(pre_element["data"])
    if t == "SpaceCharacters":
        if pre.preserve > 0 or pre_element["data"] == "":
            return token["data"] == pre_element["data"]
        return token["data"] == " "
    return True


def step_depth(token, pre_element, pre, preserve):
    # `preserve` is the number of open elements since (and including) the outermost space-preserving one
    t = pre_element["type"]
    if t == "StartTag":
        if pre.preserve > 0 or pre_element["name"] in PRESERVE:
            return preserve == pre.preserve + 1
        return preserve == 0
    if t == "EndTag":
        if pre.preserve > 0:
            return preserve == pre.preserve - 1
        return preserve == 0
    return preserve == pre.preserve


@contract("html5lib.filters.whitespace.Filter.__iter__")
class WsIter:
    props = ("C17",)
    modular = False

    def inputs(S):
        return dict(self=S.obj("html5lib.filters.whitespace.Filter"))

    loops = {"For1": LoopSpec(havoc=havoc, invariant=inv, element=element, props=("C17",),
                              step=[clause("emits_the_token", step_emits_the_token, "C17"),
                                    clause("non_text_untouched", step_non_text_untouched, "C17"),
                                    clause("only_data_changes", step_only_data_changes, "C17"),
                                    clause("text", step_text, "C17"),
                                    clause("depth", step_depth, "C17")])}

    @ensures("C17")
    def preserve_set_is_the_standards(self, result):
        return self.spacePreserveElements == frozenset(PRESERVE)


# ---- lemma: applying the filter twice equals applying it once -------------------------------------
def out_data(preserve, ttype, data):
    """what one pass of the filter does to the data of a text token (the step contract above)"""
    if preserve > 0:
        return data
    if ttype == "Characters":
        return collapse(data)
    if ttype == "SpaceCharacters":
        return data if data == "" else " "
    return data


def lemma_idempotent(preserve, ttype, data):
    return True


@contract("contracts.whitespace.lemma_idempotent")
class LemmaIdempotent:
    """The state evolution (`preserve`) depends on tag tokens only, which a pass leaves untouched, so a
    second pass sees the same `preserve` at every token; per token the data map is idempotent."""
    props = ("C17",)
    modular = False

    def inputs(S):
        return dict(preserve=S.int("preserve", lo=0), ttype=S.str_in("ttype", ("Characters", "SpaceCharacters")),
                    data=S.str("data"))

    @ensures("C17")
    def second_pass_changes_nothing(preserve, ttype, data):
        return out_data(preserve, ttype, out_data(preserve, ttype, data)) == out_data(preserve, ttype, data)

    def call(i):
        return True

"""Step contracts for handlers of the "in body" insertion mode (C01): each handler, run on an arbitrary token and an
arbitrary stack of open elements, performs the steps the WHATWG standard lists for that tag, in order, expressed as a log
of abstract tree-builder operations:

    ("close", "p")            self.endTagP / processEndTag of an implied </p>   ("close a p element")
    ("call", name, tagname)   another handler of the same phase, by name
    ("insert", token)         tree.insertElement(token)            ("insert an HTML element for the token")
    ("reconstruct",)          reconstruct the active formatting elements
    ("implied", exclude)      generate implied end tags
    ("rawtext", token, kind)  the generic raw text / RCDATA element parsing algorithm
    ("format", token)         insert + push onto the list of active formatting elements (addFormattingElement)

plus the observable state afterwards (frameset-ok flag, insertion mode, tokenizer state, stack depth, acknowledged
self-closing flag).  Parse errors are not compared.  The parser and tree builder are the abstract objects of
contracts/phase_progress.py (scope tests are an uninterpreted predicate of the stack); every other method of the phase is
replaced by a recorder, so each contract is about one handler's own steps.  The transcription of the standard is this
file's trusted part."""
from pyvc.contract import contract, requires, ensures, same_object, stack_in_scope, bounded
from contracts.phase_progress import environment, MOD

CLS = "InBodyPhase"
BOUND = "abstract parser/tree (uninterpreted scope predicate); one handler at a time"


def recorder(S, me, name):
    def rec(I, args, kwargs):
        tok = args[0] if args else None
        tname = None
        if tok is not None:
            from pyvc.builtins_ import getitem
            try:
                tname = getitem(I, tok, "name")
            except Exception:
                tname = None
        if name in ("endTagP",) or (name == "processEndTag" and tname == "p"):
            me.fields["ghost_ops"].items.append(("close", "p"))
        elif name == "addFormattingElement":
            me.fields["ghost_ops"].items.append(("format", tok))
        else:
            me.fields["ghost_ops"].items.append(("call", name, tname))
        return None
    return rec


def handler_env(S, meth, names=None, cls=CLS):
    import ast
    from pyvc import repo
    me = environment(S, cls, symbolic_compat_mode=(meth == "startTagTable"))
    me.fields["ghost_ops"] = S.list([])
    ops = me.fields["ghost_ops"]
    tree = me.fields["tree"]
    parser = me.fields["parser"]
    # every other method of the phase is a recorded call
    for c in ast.walk(repo.module_ast(MOD)):
        if isinstance(c, ast.ClassDef) and c.name in (cls, "Phase"):
            for f in c.body:
                if isinstance(f, ast.FunctionDef) and not f.name.startswith("__") and not f.name.startswith("ignore"):
                    # (predicates such as ignoreEndTagTr stay real code)
                    # (the handler under contract is entered directly by the engine: overriding its own name only
                    # affects the calls it makes to itself)
                    me.methods[f.name] = recorder(S, me, f.name)
    real_insert = tree.methods["insertElement"]

    def insert(I, a, k):
        ops.items.append(("insert", a[0]))
        return real_insert(I, a, k)
    tree.methods["insertElement"] = insert
    tree.methods["reconstructActiveFormattingElements"] = lambda I, a, k: ops.items.append(("reconstruct",))
    tree.methods["insertText"] = lambda I, a, k: ops.items.append(("text", a[0]))
    real_implied = tree.methods["generateImpliedEndTags"]

    def implied(I, a, k):
        ops.items.append(("implied", a[0] if a else k.get("exclude")))
        return real_implied(I, a, k)
    tree.methods["generateImpliedEndTags"] = implied
    parser.methods["parseRCDataRawtext"] = lambda I, a, k: ops.items.append(("rawtext", a[0], a[1]))
    # the current insertion mode's processEndTag for implied end tags (self.parser.phase is this object)
    if cls == "TextPhase":
        parser.fields["originalPhase"] = parser.fields["phases"].entries["inBody"][0]
    if cls == "InTableTextPhase":
        me.fields["characterTokens"] = S.list([])
        token_data = S.one_of("\u0000", lambda: S.str("token.data"))
    if meth == "startTagSelect":
        # also reached by delegation from the table modes: the current insertion mode need not be "in body"
        k = S.one_of("inBody", "inTable", "inCaption", "inColumnGroup", "inTableBody", "inRow", "inCell", "inSelect")
        parser.fields["phase"] = parser.fields["phases"].entries[k][0]
        me.fields["ghost_mode"] = k
    tname = S.one_of(*names) if names else S.str("token.name")
    data = S.symdict([(S.str("attr"), S.str("value"))])
    if cls == "InTableTextPhase" and meth == "processCharacters":
        data = token_data
    if cls == "TextPhase" and meth == "processCharacters":
        data = S.str("token.data")
    if cls in ("AfterBodyPhase", "AfterAfterBodyPhase", "AfterAfterFramesetPhase") and meth == "processSpaceCharacters":
        data = S.str("token.data")
    if cls in FRAMESET_MODES and meth == "processCharacters":
        data = S.one_of(*FRAMESET_CHARACTER_DATA)
    token = S.dict({"type": 4 if meth.startswith("endTag") else 3, "name": tname, "data": data,
                    "selfClosing": S.bool("selfClosing"), "selfClosingAcknowledged": False})
    return dict(self=me, token=token)


FRAMESET_MODES = ("InFramesetPhase", "AfterFramesetPhase", "AfterAfterFramesetPhase")
# character tokens that mix space characters with others (the tokenizer emits all-space runs as separate tokens)
FRAMESET_CHARACTER_DATA = ("a", "a b", " a", "a\t\n", "a \x0c\rb c", "ab")
SPACE = " \t\n\x0c\r"


def only_spaces(data):
    out = ""
    for ch in data:
        if ch in SPACE:
            out = out + ch
    return out


def ops_are(self, want):
    got = self.ghost_ops
    if len(got) != len(want):
        return False
    for i in range(len(want)):
        g, w = got[i], want[i]
        if len(g) != len(w) or g[0] != w[0]:
            return False
        for j in range(1, len(w)):
            if w[0] in ("insert", "format", "rawtext") and j == 1:
                if not same_object(g[j], w[j]):
                    return False
            elif g[j] != w[j]:
                return False
    return True


def p_in_button_scope(old):
    return stack_in_scope("p", "button", old.self.tree.openElements)


def close_p_then(old, rest):
    return ([("close", "p")] if p_in_button_scope(old) else []) + rest


def grew_by(old, self, n):
    return len(self.tree.openElements) == len(old.self.tree.openElements) + n


def _mk(meth, names, clause_fn, cls=CLS):
    class HandlerFollowsTheStandard:
        props = ("C01",)
        modular = False
        raises = {"IndexError": True, "AssertionError": True}

        def inputs(S):
            return handler_env(S, meth, names, cls)

        follows_the_standard = ensures("C01")(bounded(BOUND)(clause_fn))
    HandlerFollowsTheStandard.__name__ = "%s_%s" % (cls, meth)
    HandlerFollowsTheStandard.__qualname__ = HandlerFollowsTheStandard.__name__
    return contract("%s.%s.%s" % (MOD, cls, meth))(HandlerFollowsTheStandard)


# --- "address", "article", ..., "ul": close a p element if one is in button scope; insert
def spec_close_p(old, self, token, result):
    return result is None and ops_are(self, close_p_then(old, [("insert", token)])) and grew_by(old, self, 1)


# --- pre, listing: the same, then frameset-ok is cleared (the newline rule is the swapped whitespace handler)
def spec_pre_listing(old, self, token, result):
    return (result is None and ops_are(self, close_p_then(old, [("insert", token)])) and grew_by(old, self, 1)
            and self.parser.framesetOK is False and self.processSpaceCharacters is not None)


# --- plaintext: close p, insert, tokenizer to PLAINTEXT
def spec_plaintext(old, self, token, result):
    return (result is None and ops_are(self, close_p_then(old, [("insert", token)])) and grew_by(old, self, 1)
            and self.parser.tokenizer.state == self.parser.tokenizer.plaintextState)


# --- b, big, code, em, font, i, s, small, strike, strong, tt, u: reconstruct, insert and push onto the list
def spec_formatting(old, self, token, result):
    return result is None and ops_are(self, [("reconstruct",), ("format", token)])


# --- area, br, embed, img, keygen, wbr: reconstruct, insert, pop at once, acknowledge the solidus, frameset-ok cleared
def spec_void_formatting(old, self, token, result):
    return (result is None and ops_are(self, [("reconstruct",), ("insert", token)]) and grew_by(old, self, 0)
            and token["selfClosingAcknowledged"] is True and self.parser.framesetOK is False)


# --- param, source, track: insert, pop at once, acknowledge
def spec_param_source(old, self, token, result):
    return (result is None and ops_are(self, [("insert", token)]) and grew_by(old, self, 0)
            and token["selfClosingAcknowledged"] is True and self.parser.framesetOK == old.self.parser.framesetOK)


# --- hr: close p, insert, pop at once, acknowledge, frameset-ok cleared
def spec_hr(old, self, token, result):
    return (result is None and ops_are(self, close_p_then(old, [("insert", token)])) and grew_by(old, self, 0)
            and token["selfClosingAcknowledged"] is True and self.parser.framesetOK is False)


# --- xmp: close p, reconstruct, frameset-ok cleared, generic raw text element parsing
def spec_xmp(old, self, token, result):
    return (result is None and ops_are(self, close_p_then(old, [("reconstruct",), ("rawtext", token, "RAWTEXT")]))
            and self.parser.framesetOK is False)


# --- table: close p unless the document is in quirks mode; insert; frameset-ok cleared; "in table"
def spec_table(old, self, token, result):
    want = [("insert", token)]
    if old.self.parser.compatMode != "quirks":
        want = close_p_then(old, want)
    return (result is None and ops_are(self, want) and grew_by(old, self, 1) and self.parser.framesetOK is False
            and same_object(self.parser.phase, self.parser.phases["inTable"]))


# --- applet, marquee, object: reconstruct, insert, marker onto the list of active formatting elements, frameset-ok cleared
def spec_applet_marquee_object(old, self, token, result):
    afe = self.tree.activeFormattingElements
    return (result is None and ops_are(self, [("reconstruct",), ("insert", token)]) and grew_by(old, self, 1)
            and afe[-1] is None and len(afe) == len(old.self.tree.activeFormattingElements) + 1
            and self.parser.framesetOK is False)


# --- iframe: frameset-ok cleared, then the raw text steps (startTagRawtext)
def spec_iframe(old, self, token, result):
    return result is None and ops_are(self, [("call", "startTagRawtext", token["name"])]) and self.parser.framesetOK is False


# --- noembed, noframes (and noscript with scripting): generic raw text element parsing
def spec_rawtext(old, self, token, result):
    return result is None and ops_are(self, [("rawtext", token, "RAWTEXT")])


# --- noscript: raw text if scripting is enabled, any other start tag otherwise
def spec_noscript(old, self, token, result):
    if old.self.parser.scripting:
        return result is None and ops_are(self, [("call", "startTagRawtext", token["name"])])
    return result is None and ops_are(self, [("call", "startTagOther", token["name"])])


# --- any other start tag: reconstruct, insert
def spec_other(old, self, token, result):
    return result is None and ops_are(self, [("reconstruct",), ("insert", token)]) and grew_by(old, self, 1)


# --- caption, col, colgroup, frame, head, tbody, td, tfoot, th, thead, tr: parse error, ignore the token
def spec_misplaced(old, self, token, result):
    return result is None and ops_are(self, []) and grew_by(old, self, 0)


# --- button: if one is in scope, act as for </button> and reprocess; else reconstruct, insert, frameset-ok cleared
def spec_button(old, self, token, result):
    if stack_in_scope("button", "None", old.self.tree.openElements):
        return same_object(result, token) and ops_are(self, [("call", "processEndTag", "button")])
    return (result is None and ops_are(self, [("reconstruct",), ("insert", token)]) and grew_by(old, self, 1)
            and self.parser.framesetOK is False)


# --- nobr: reconstruct; if one is in scope run the adoption agency for it and reconstruct again; insert and push
def spec_nobr(old, self, token, result):
    if stack_in_scope("nobr", "None", old.self.tree.openElements):
        return result is None and ops_are(self, [("reconstruct",), ("call", "processEndTag", "nobr"), ("reconstruct",), ("format", token)])
    return result is None and ops_are(self, [("reconstruct",), ("format", token)])


HEADINGS = ("h1", "h2", "h3", "h4", "h5", "h6")


# --- h1..h6: close p; if the current node is a heading, parse error and pop it; insert
def spec_heading(old, self, token, result):
    top_is_heading = old.self.tree.openElements[-1].name in HEADINGS
    return (result is None and ops_are(self, close_p_then(old, [("insert", token)]))
            and grew_by(old, self, 0 if top_is_heading else 1))


# --- form: ignored while the form element pointer is set; else close p, insert, point the form pointer at it
def spec_form(old, self, token, result):
    if old.self.tree.formPointer is not None:
        return result is None and ops_are(self, []) and grew_by(old, self, 0)
    return (result is None and ops_are(self, close_p_then(old, [("insert", token)])) and grew_by(old, self, 1)
            and same_object(self.tree.formPointer, self.tree.openElements[-1]))


# --- optgroup, option: if the current node is an option, pop it (as for </option>); reconstruct; insert
def spec_opt(old, self, token, result):
    want = [("reconstruct",), ("insert", token)]
    if old.self.tree.openElements[-1].name == "option":
        want = [("call", "processEndTag", "option")] + want
    return result is None and ops_are(self, want) and grew_by(old, self, 1)


# --- select: reconstruct, insert, frameset-ok cleared; "in select in table" when coming from a table mode, else "in select"
def spec_select(old, self, token, result):
    in_table = self.ghost_mode in ("inTable", "inCaption", "inColumnGroup", "inTableBody", "inRow", "inCell")
    want_mode = self.parser.phases["inSelectInTable"] if in_table else self.parser.phases["inSelect"]
    return (result is None and ops_are(self, [("reconstruct",), ("insert", token)]) and grew_by(old, self, 1)
            and self.parser.framesetOK is False and same_object(self.parser.phase, want_mode))


# --- rp, rt: if a ruby element is in scope generate implied end tags (parse error if the current node is then not ruby);
#     insert   (rtc is not implemented: known finding C01-unsupported-elements-ruby)
def spec_rp_rt(old, self, token, result):
    want = [("insert", token)]
    if stack_in_scope("ruby", "None", old.self.tree.openElements):
        want = [("implied", None)] + want
    return result is None and ops_are(self, want)


# --- math, svg: reconstruct, adjust attributes, insert a foreign element; a self-closing tag is popped and acknowledged
def spec_foreign_root(old, self, token, result, ns):
    if not (result is None and ops_are(self, [("reconstruct",), ("insert", token)]) and token["namespace"] == ns):
        return False
    if old.token["selfClosing"]:
        return grew_by(old, self, 0) and token["selfClosingAcknowledged"] is True
    return grew_by(old, self, 1) and token["selfClosingAcknowledged"] is False


def spec_math(old, self, token, result):
    return spec_foreign_root(old, self, token, result, "http://www.w3.org/1998/Math/MathML")


def spec_svg(old, self, token, result):
    return spec_foreign_root(old, self, token, result, "http://www.w3.org/2000/svg")


# --- input: as for the other void formatting-like elements, but type=hidden (ASCII case-insensitive) leaves frameset-ok alone
def spec_input(old, self, token, result):
    return result is None and ops_are(self, [("call", "startTagVoidFormatting", "input")])


# --- </p>: without a p in button scope: parse error, insert a p element, then close it; otherwise implied end tags except p,
#     then pop up to and including a p
def spec_end_p(old, self, token, result):
    if not p_in_button_scope(old):
        return result is None and ops_are(self, [("call", "startTagCloseP", "p"), ("close", "p")])
    return (result is None and ops_are(self, [("implied", "p")])
            and len(self.tree.openElements) < len(old.self.tree.openElements))


# --- </br>: parse error; treated as a <br> start tag without attributes: reconstruct, insert, pop, frameset-ok cleared
def spec_end_br(old, self, token, result):
    ops = self.ghost_ops
    if not (result is None and len(ops) == 2 and ops[0] == ("reconstruct",) and ops[1][0] == "insert"):
        return False
    t = ops[1][1]
    return (not same_object(t, token) and t["name"] == "br" and t["type"] == 3 and len(t["data"]) == 0
            and grew_by(old, self, 0) and self.parser.framesetOK is False)


# --- end tags of the block elements: nothing but a parse error unless the element is in scope; then implied end tags and
#     pop up to and including it
def spec_end_block(old, self, token, result):
    if not stack_in_scope(token["name"], "None", old.self.tree.openElements):
        return result is None and ops_are(self, []) and grew_by(old, self, 0)
    return (result is None and ops_are(self, [("implied", None)])
            and len(self.tree.openElements) < len(old.self.tree.openElements))


# --- </li> (list item scope), </dd>, </dt> (scope): parse error unless in scope; else implied end tags except for the
#     element, then pop up to and including it
def spec_end_list_item(old, self, token, result):
    variant = "list" if token["name"] == "li" else "None"
    if not stack_in_scope(token["name"], variant, old.self.tree.openElements):
        return result is None and ops_are(self, []) and grew_by(old, self, 0)
    return (result is None and ops_are(self, [("implied", token["name"])])
            and len(self.tree.openElements) < len(old.self.tree.openElements))


# --- image: parse error; "change the token's tag name to img and reprocess it" (don't ask)
def spec_image(old, self, token, result):
    ops = self.ghost_ops
    return result is None and len(ops) == 1 and ops[0] == ("call", "processStartTag", "img")


HANDLERS = [
    ("startTagCloseP", ["address", "article", "aside", "blockquote", "center", "details", "dir", "div", "dl", "fieldset",
                        "figcaption", "figure", "footer", "header", "hgroup", "main", "menu", "nav", "ol", "p", "section",
                        "summary", "ul"], spec_close_p),
    ("startTagPreListing", ["pre", "listing"], spec_pre_listing),
    ("startTagPlaintext", ["plaintext"], spec_plaintext),
    ("startTagFormatting", ["b", "big", "code", "em", "font", "i", "s", "small", "strike", "strong", "tt", "u"], spec_formatting),
    ("startTagVoidFormatting", ["area", "br", "embed", "img", "keygen", "wbr"], spec_void_formatting),
    ("startTagParamSource", ["param", "source", "track"], spec_param_source),
    ("startTagHr", ["hr"], spec_hr),
    ("startTagXmp", ["xmp"], spec_xmp),
    ("startTagTable", ["table"], spec_table),
    ("startTagAppletMarqueeObject", ["applet", "marquee", "object"], spec_applet_marquee_object),
    ("startTagIFrame", ["iframe"], spec_iframe),
    ("startTagRawtext", ["noembed", "noframes"], spec_rawtext),
    ("startTagNoscript", ["noscript"], spec_noscript),
    ("startTagOther", None, spec_other),
    ("startTagMisplaced", ["caption", "col", "colgroup", "frame", "head", "tbody", "td", "tfoot", "th", "thead", "tr"], spec_misplaced),
    ("startTagButton", ["button"], spec_button),
    ("startTagNobr", ["nobr"], spec_nobr),
    ("startTagHeading", list(HEADINGS), spec_heading),
    ("startTagForm", ["form"], spec_form),
    ("startTagOpt", ["optgroup", "option"], spec_opt),
    ("startTagSelect", ["select"], spec_select),
    ("startTagRpRt", ["rp", "rt"], spec_rp_rt),
    ("startTagMath", ["math"], spec_math),
    ("startTagSvg", ["svg"], spec_svg),
    ("startTagInput", ["input"], spec_input),
    ("endTagP", ["p"], spec_end_p),
    ("endTagBr", ["br"], spec_end_br),
    ("endTagListItem", ["li", "dd", "dt"], spec_end_list_item),
    ("startTagImage", ["image"], spec_image),
    ("endTagBlock", ["address", "article", "aside", "blockquote", "button", "center", "details", "dialog", "dir", "div", "dl",
                     "fieldset", "figcaption", "figure", "footer", "header", "hgroup", "listing", "main", "menu", "nav", "ol",
                     "pre", "section", "summary", "ul"], spec_end_block),
]

for _m, _names, _fn in HANDLERS:
    globals()["InBody_" + _m] = _mk(_m, _names, _fn)


# ------------------------------------------------------------------------------------------- "in head" insertion mode
# --- head: parse error, ignore
def spec_head_ignore(old, self, token, result):
    return result is None and ops_are(self, []) and grew_by(old, self, 0)


# --- base, basefont, bgsound, link (and the obsolete command): insert, pop at once, acknowledge the solidus
def spec_head_void(old, self, token, result):
    return (result is None and ops_are(self, [("insert", token)]) and grew_by(old, self, 0)
            and token["selfClosingAcknowledged"] is True)


# --- title: generic RCDATA element parsing; noframes, style: generic raw text element parsing
def spec_head_title(old, self, token, result):
    return result is None and ops_are(self, [("rawtext", token, "RCDATA")])


def spec_head_rawtext(old, self, token, result):
    return result is None and ops_are(self, [("rawtext", token, "RAWTEXT")])


# --- noscript: raw text with scripting; otherwise insert and switch to "in head noscript"
def spec_head_noscript(old, self, token, result):
    if old.self.parser.scripting:
        return result is None and ops_are(self, [("rawtext", token, "RAWTEXT")])
    return (result is None and ops_are(self, [("insert", token)]) and grew_by(old, self, 1)
            and same_object(self.parser.phase, self.parser.phases["inHeadNoscript"]))


# --- script: insert; tokenizer to script data; remember the insertion mode; switch to "text"
def spec_head_script(old, self, token, result):
    return (result is None and ops_are(self, [("insert", token)]) and grew_by(old, self, 1)
            and self.parser.tokenizer.state == self.parser.tokenizer.scriptDataState
            and same_object(self.parser.originalPhase, old.self.parser.phase)
            and same_object(self.parser.phase, self.parser.phases["text"]))


# --- </head>: pop the head element, switch to "after head"
def spec_head_end(old, self, token, result):
    return (result is None and ops_are(self, []) and grew_by(old, self, -1)
            and same_object(self.parser.phase, self.parser.phases["afterHead"]))


# --- anything else (other start tags, </body>, </html>, </br>, characters): act as if </head> had been seen, reprocess
def spec_head_anything_else_reprocess(old, self, token, result):
    return same_object(result, token) and ops_are(self, [("call", "anythingElse", None)])


def spec_head_anything_else(old, self, result):
    return result is None and ops_are(self, [("call", "endTagHead", "head")])


# --- any other end tag: parse error, ignore
def spec_head_end_other(old, self, token, result):
    return result is None and ops_are(self, []) and grew_by(old, self, 0)


IN_HEAD = [
    ("startTagHead", ["head"], spec_head_ignore),
    ("startTagBaseLinkCommand", ["base", "basefont", "bgsound", "command", "link"], spec_head_void),
    ("startTagTitle", ["title"], spec_head_title),
    ("startTagNoFramesStyle", ["noframes", "style"], spec_head_rawtext),
    ("startTagNoscript", ["noscript"], spec_head_noscript),
    ("startTagScript", ["script"], spec_head_script),
    ("endTagHead", ["head"], spec_head_end),
    ("startTagOther", None, spec_head_anything_else_reprocess),
    ("endTagHtmlBodyBr", ["br", "html", "body"], spec_head_anything_else_reprocess),
    ("endTagOther", None, spec_head_end_other),
]

for _m, _names, _fn in IN_HEAD:
    globals()["InHead_" + _m] = _mk(_m, _names, _fn, "InHeadPhase")


# ------------------------------------------------------------------------------------------- "after head" insertion mode
# --- body: insert; frameset-ok cleared; "in body"
def spec_ah_body(old, self, token, result):
    return (result is None and ops_are(self, [("insert", token)]) and grew_by(old, self, 1)
            and self.parser.framesetOK is False and same_object(self.parser.phase, self.parser.phases["inBody"]))


# --- frameset: insert; "in frameset"
def spec_ah_frameset(old, self, token, result):
    return (result is None and ops_are(self, [("insert", token)]) and grew_by(old, self, 1)
            and same_object(self.parser.phase, self.parser.phases["inFrameset"]))


# --- anything else: insert a body element for a start tag token with no attributes; "in body" (the caller reprocesses)
def spec_ah_anything_else(old, self, result):
    ops = self.ghost_ops
    if not (result is None and len(ops) == 1 and ops[0][0] == "insert"):
        return False
    t = ops[0][1]
    return (t["name"] == "body" and t["type"] == 3 and len(t["data"]) == 0 and grew_by(old, self, 1)
            and same_object(self.parser.phase, self.parser.phases["inBody"]))


AFTER_HEAD = [
    ("startTagBody", ["body"], spec_ah_body),
    ("startTagFrameset", ["frameset"], spec_ah_frameset),
    ("startTagHead", ["head"], spec_head_ignore),
    ("startTagOther", None, spec_head_anything_else_reprocess),
    ("endTagHtmlBodyBr", ["body", "html", "br"], spec_head_anything_else_reprocess),
    ("endTagOther", None, spec_head_end_other),
]

for _m, _names, _fn in AFTER_HEAD:
    globals()["AfterHead_" + _m] = _mk(_m, _names, _fn, "AfterHeadPhase")


# ------------------------------------------------------------------------------------------- "in table" insertion mode
def _cleared_then_inserted(old, self, token, result, mode):
    return (result is None and ops_are(self, [("call", "clearStackToTableContext", None), ("insert", token)])
            and grew_by(old, self, 1) and same_object(self.parser.phase, self.parser.phases[mode]))


# --- caption: clear the stack back to a table context; marker onto the active formatting elements; insert; "in caption"
def spec_it_caption(old, self, token, result):
    afe = self.tree.activeFormattingElements
    return (_cleared_then_inserted(old, self, token, result, "inCaption") and afe[-1] is None
            and len(afe) == len(old.self.tree.activeFormattingElements) + 1)


# --- colgroup: clear the stack; insert; "in column group"
def spec_it_colgroup(old, self, token, result):
    return _cleared_then_inserted(old, self, token, result, "inColumnGroup")


# --- tbody, tfoot, thead: clear the stack; insert; "in table body"
def spec_it_row_group(old, self, token, result):
    return _cleared_then_inserted(old, self, token, result, "inTableBody")


# --- col: act as if <colgroup> had been seen, then reprocess
def spec_it_col(old, self, token, result):
    return same_object(result, token) and ops_are(self, [("call", "startTagColgroup", "colgroup")])


# --- td, th, tr: act as if <tbody> had been seen, then reprocess
def spec_it_imply_tbody(old, self, token, result):
    return same_object(result, token) and ops_are(self, [("call", "startTagRowGroup", "tbody")])


# --- table: parse error; with a table in table scope act as for </table> and reprocess; otherwise ignore (fragment case)
def spec_it_table(old, self, token, result):
    if not ops_are(self, [("call", "processEndTag", "table")]):
        return False
    if stack_in_scope("table", "table", old.self.tree.openElements):
        return same_object(result, token)
    return result is None


# --- form: parse error; ignored while the form element pointer is set; else insert, point the pointer at it, pop it at once
def spec_it_form(old, self, token, result):
    if old.self.tree.formPointer is not None:
        return result is None and ops_are(self, []) and grew_by(old, self, 0)
    return (result is None and ops_are(self, [("insert", token)]) and grew_by(old, self, 0)
            and self.tree.formPointer is not None)


# --- </table>: ignored (parse error) without a table in table scope; else pop up to and including the table, reset the mode
def spec_it_end_table(old, self, token, result):
    if not stack_in_scope("table", "table", old.self.tree.openElements):
        return result is None and grew_by(old, self, 0) and same_object(self.parser.phase, old.self.parser.phase)
    return (result is None and len(self.tree.openElements) < len(old.self.tree.openElements)
            and not same_object(self.parser.phase, old.self.parser.phase))


IN_TABLE = [
    ("startTagCaption", ["caption"], spec_it_caption),
    ("startTagColgroup", ["colgroup"], spec_it_colgroup),
    ("startTagRowGroup", ["tbody", "tfoot", "thead"], spec_it_row_group),
    ("startTagCol", ["col"], spec_it_col),
    ("startTagImplyTbody", ["td", "th", "tr"], spec_it_imply_tbody),
    ("startTagTable", ["table"], spec_it_table),
    ("startTagForm", ["form"], spec_it_form),
    ("endTagTable", ["table"], spec_it_end_table),
    ("endTagIgnore", ["body", "caption", "col", "colgroup", "html", "tbody", "td", "tfoot", "th", "thead", "tr"], spec_head_end_other),
]

for _m, _names, _fn in IN_TABLE:
    globals()["InTable_" + _m] = _mk(_m, _names, _fn, "InTablePhase")


# ------------------------------------------------------------------------------------------- "in table body" mode
def any_row_group_in_table_scope(old):
    st = old.self.tree.openElements
    return stack_in_scope("tbody", "table", st) or stack_in_scope("thead", "table", st) or stack_in_scope("tfoot", "table", st)


# --- tr: clear the stack back to a table body context; insert; "in row"
def spec_tb_tr(old, self, token, result):
    return (result is None and ops_are(self, [("call", "clearStackToTableBodyContext", None), ("insert", token)])
            and grew_by(old, self, 1) and same_object(self.parser.phase, self.parser.phases["inRow"]))


# --- td, th: parse error; act as if <tr> had been seen; reprocess
def spec_tb_cell(old, self, token, result):
    return same_object(result, token) and ops_are(self, [("call", "startTagTr", "tr")])


# --- caption, col, colgroup, tbody, tfoot, thead start tags and </table>: without a row group in table scope ignore (parse
#     error); else clear the stack back to a table body context, act as for the end tag of the current node, reprocess
def spec_tb_table_other(old, self, token, result):
    if not any_row_group_in_table_scope(old):
        return result is None and ops_are(self, [])
    ops = self.ghost_ops
    return (same_object(result, token) and len(ops) == 2 and ops[0] == ("call", "clearStackToTableBodyContext", None)
            and ops[1][0] == "call" and ops[1][1] == "endTagTableRowGroup"
            and ops[1][2] == old.self.tree.openElements[-1].name)


# --- </tbody>, </tfoot>, </thead>: ignored (parse error) unless in table scope; else clear the stack, pop the current node,
#     "in table"
def spec_tb_end_row_group(old, self, token, result):
    if not stack_in_scope(token["name"], "table", old.self.tree.openElements):
        return result is None and ops_are(self, []) and grew_by(old, self, 0) and same_object(self.parser.phase, old.self.parser.phase)
    return (result is None and ops_are(self, [("call", "clearStackToTableBodyContext", None)]) and grew_by(old, self, -1)
            and same_object(self.parser.phase, self.parser.phases["inTable"]))


IN_TABLE_BODY = [
    ("startTagTr", ["tr"], spec_tb_tr),
    ("startTagTableCell", ["td", "th"], spec_tb_cell),
    ("startTagTableOther", ["caption", "col", "colgroup", "tbody", "tfoot", "thead"], spec_tb_table_other),
    ("endTagTable", ["table"], spec_tb_table_other),
    ("endTagTableRowGroup", ["tbody", "tfoot", "thead"], spec_tb_end_row_group),
    ("endTagIgnore", ["body", "caption", "col", "colgroup", "html", "td", "th", "tr"], spec_head_end_other),
]

for _m, _names, _fn in IN_TABLE_BODY:
    globals()["InTableBody_" + _m] = _mk(_m, _names, _fn, "InTableBodyPhase")


# ------------------------------------------------------------------------------------------- "in column group" mode
# --- col: insert, pop at once, acknowledge the solidus
def spec_cg_col(old, self, token, result):
    return (result is None and ops_are(self, [("insert", token)]) and grew_by(old, self, 0)
            and token["selfClosingAcknowledged"] is True)


# --- </colgroup>: ignored (parse error) if the current node is the html element (fragment case); else pop it, "in table"
def spec_cg_end_colgroup(old, self, token, result):
    if old.self.tree.openElements[-1].name == "html":
        return result is None and grew_by(old, self, 0) and same_object(self.parser.phase, old.self.parser.phase)
    return result is None and grew_by(old, self, -1) and same_object(self.parser.phase, self.parser.phases["inTable"])


# --- anything else: act as for </colgroup>; reprocess unless that end tag was ignored
def spec_cg_anything_else(old, self, token, result):
    ops = self.ghost_ops
    if not (len(ops) >= 1 and ops[-1] == ("call", "endTagColgroup", "colgroup")):
        return False
    if old.self.tree.openElements[-1].name == "html":
        return result is None
    return same_object(result, token)


IN_COLUMN_GROUP = [
    ("startTagCol", ["col"], spec_cg_col),
    ("endTagColgroup", ["colgroup"], spec_cg_end_colgroup),
    ("endTagCol", ["col"], spec_head_end_other),
]

for _m, _names, _fn in IN_COLUMN_GROUP:
    globals()["InColumnGroup_" + _m] = _mk(_m, _names, _fn, "InColumnGroupPhase")


# ------------------------------------------------------------------------------------------- "in row" mode
def tr_in_table_scope(old):
    return stack_in_scope("tr", "table", old.self.tree.openElements)


# --- td, th: clear the stack back to a table row context; insert; "in cell"; marker onto the active formatting elements
def spec_row_cell(old, self, token, result):
    afe = self.tree.activeFormattingElements
    return (result is None and ops_are(self, [("call", "clearStackToTableRowContext", None), ("insert", token)])
            and grew_by(old, self, 1) and same_object(self.parser.phase, self.parser.phases["inCell"])
            and afe[-1] is None and len(afe) == len(old.self.tree.activeFormattingElements) + 1)


# --- </tr>: ignored (parse error) without a tr in table scope; else clear the stack back to a table row context, pop the tr,
#     "in table body"
def spec_row_end_tr(old, self, token, result):
    if not tr_in_table_scope(old):
        return result is None and ops_are(self, []) and grew_by(old, self, 0) and same_object(self.parser.phase, old.self.parser.phase)
    return (result is None and ops_are(self, [("call", "clearStackToTableRowContext", None)]) and grew_by(old, self, -1)
            and same_object(self.parser.phase, self.parser.phases["inTableBody"]))


# --- caption, col, colgroup, tbody, tfoot, thead, tr start tags and </table>: act as for </tr>; reprocess unless it was ignored
def spec_row_table_other(old, self, token, result):
    if not ops_are(self, [("call", "endTagTr", "tr")]):
        return False
    return same_object(result, token) if tr_in_table_scope(old) else result is None


# --- </tbody>, </tfoot>, </thead>: ignored unless that element is in table scope; else act as for </tr> and reprocess
def spec_row_end_row_group(old, self, token, result):
    if not stack_in_scope(token["name"], "table", old.self.tree.openElements):
        return result is None and ops_are(self, [])
    return same_object(result, token) and ops_are(self, [("call", "endTagTr", "tr")])


IN_ROW = [
    ("startTagTableCell", ["td", "th"], spec_row_cell),
    ("endTagTr", ["tr"], spec_row_end_tr),
    ("startTagTableOther", ["caption", "col", "colgroup", "tbody", "tfoot", "thead", "tr"], spec_row_table_other),
    ("endTagTable", ["table"], spec_row_table_other),
    ("endTagTableRowGroup", ["tbody", "tfoot", "thead"], spec_row_end_row_group),
    ("endTagIgnore", ["body", "caption", "col", "colgroup", "html", "td", "th"], spec_head_end_other),
]

for _m, _names, _fn in IN_ROW:
    globals()["InRow_" + _m] = _mk(_m, _names, _fn, "InRowPhase")


# ------------------------------------------------------------------------------------------- "in cell" mode
def cell_in_table_scope(old):
    st = old.self.tree.openElements
    return stack_in_scope("td", "table", st) or stack_in_scope("th", "table", st)


# --- caption, col, colgroup, tbody, td, tfoot, th, thead, tr start tags: without a cell in table scope ignore (fragment case);
#     else close the cell and reprocess
def spec_cell_table_other(old, self, token, result):
    if not cell_in_table_scope(old):
        return result is None and ops_are(self, [])
    return same_object(result, token) and ops_are(self, [("call", "closeCell", None)])


# --- </td>, </th>: ignored (parse error) unless in table scope; else implied end tags except for it, pop up to and including
#     it, clear the active formatting elements up to the last marker, "in row"
def spec_cell_end_cell(old, self, token, result):
    if not stack_in_scope(token["name"], "table", old.self.tree.openElements):
        return result is None and ops_are(self, []) and grew_by(old, self, 0) and same_object(self.parser.phase, old.self.parser.phase)
    return (result is None and ops_are(self, [("implied", token["name"])])
            and len(self.tree.openElements) < len(old.self.tree.openElements)
            and same_object(self.parser.phase, self.parser.phases["inRow"]))


# --- </table>, </tbody>, </tfoot>, </thead>, </tr>: ignored unless that element is in table scope; else close the cell, reprocess
def spec_cell_end_imply(old, self, token, result):
    if not stack_in_scope(token["name"], "table", old.self.tree.openElements):
        return result is None and ops_are(self, [])
    return same_object(result, token) and ops_are(self, [("call", "closeCell", None)])


IN_CELL = [
    ("startTagTableOther", ["caption", "col", "colgroup", "tbody", "td", "tfoot", "th", "thead", "tr"], spec_cell_table_other),
    ("endTagTableCell", ["td", "th"], spec_cell_end_cell),
    ("endTagImply", ["table", "tbody", "tfoot", "thead", "tr"], spec_cell_end_imply),
    ("endTagIgnore", ["body", "caption", "col", "colgroup", "html"], spec_head_end_other),
]

for _m, _names, _fn in IN_CELL:
    globals()["InCell_" + _m] = _mk(_m, _names, _fn, "InCellPhase")


# ------------------------------------------------------------------------------------------- "in select" mode
def select_in_select_scope(old):
    return stack_in_scope("select", "select", old.self.tree.openElements)


# --- option: if the current node is an option, pop it; insert
def spec_sel_option(old, self, token, result):
    popped = 1 if old.self.tree.openElements[-1].name == "option" else 0
    return result is None and ops_are(self, [("insert", token)]) and grew_by(old, self, 1 - popped)


# --- select start tag: parse error; act as for </select>
def spec_sel_select(old, self, token, result):
    return result is None and ops_are(self, [("call", "endTagSelect", "select")])


# --- input, keygen, textarea: parse error; without a select in select scope ignore; else act as for </select>, reprocess
def spec_sel_input(old, self, token, result):
    if not select_in_select_scope(old):
        return result is None and ops_are(self, [])
    return same_object(result, token) and ops_are(self, [("call", "endTagSelect", "select")])


# --- </option>: pop the current node if it is an option, else parse error
def spec_sel_end_option(old, self, token, result):
    popped = 1 if old.self.tree.openElements[-1].name == "option" else 0
    return result is None and ops_are(self, []) and grew_by(old, self, -popped)


# --- </select>: ignored (parse error) without a select in select scope; else pop up to and including it, reset the mode
def spec_sel_end_select(old, self, token, result):
    if not select_in_select_scope(old):
        return result is None and grew_by(old, self, 0) and same_object(self.parser.phase, old.self.parser.phase)
    return (result is None and len(self.tree.openElements) < len(old.self.tree.openElements)
            and not same_object(self.parser.phase, old.self.parser.phase))


IN_SELECT = [
    ("startTagOption", ["option"], spec_sel_option),
    ("startTagSelect", ["select"], spec_sel_select),
    ("startTagInput", ["input", "keygen", "textarea"], spec_sel_input),
    ("startTagOther", None, spec_head_end_other),
    ("endTagOption", ["option"], spec_sel_end_option),
    ("endTagSelect", ["select"], spec_sel_end_select),
    ("endTagOther", None, spec_head_end_other),
]

for _m, _names, _fn in IN_SELECT:
    globals()["InSelect_" + _m] = _mk(_m, _names, _fn, "InSelectPhase")


# ------------------------------------------------------------------------------------------- "in frameset" mode
# --- frameset: insert
def spec_fs_frameset(old, self, token, result):
    return result is None and ops_are(self, [("insert", token)]) and grew_by(old, self, 1)


# --- frame: insert, pop at once
def spec_fs_frame(old, self, token, result):
    return result is None and ops_are(self, [("insert", token)]) and grew_by(old, self, 0)


IN_FRAMESET = [
    ("startTagFrameset", ["frameset"], spec_fs_frameset),
    ("startTagFrame", ["frame"], spec_fs_frame),
    ("startTagOther", None, spec_head_end_other),
    ("endTagOther", None, spec_head_end_other),
]

for _m, _names, _fn in IN_FRAMESET:
    globals()["InFrameset_" + _m] = _mk(_m, _names, _fn, "InFramesetPhase")


# ------------------------------------------------------------------------------------------- "after body" mode
# --- whitespace: processed by the in-body rules: reconstruct the active formatting elements, insert the characters
def spec_ab_space(old, self, token, result):
    return result is None and ops_are(self, [("reconstruct",), ("text", token["data"])])


# --- any other character, start tag or end tag: parse error; switch to "in body"; reprocess
def spec_ab_back_to_body(old, self, token, result):
    return (same_object(result, token) and ops_are(self, [])
            and same_object(self.parser.phase, self.parser.phases["inBody"]))


AFTER_BODY = [
    ("processSpaceCharacters", None, spec_ab_space),
    ("processCharacters", None, spec_ab_back_to_body),
    ("startTagOther", None, spec_ab_back_to_body),
    ("endTagOther", None, spec_ab_back_to_body),
]

for _m, _names, _fn in AFTER_BODY:
    globals()["AfterBody_" + _m] = _mk(_m, _names, _fn, "AfterBodyPhase")


# ------------------------------------------------------------------------------------------- "in caption" mode
def caption_in_table_scope(old):
    return stack_in_scope("caption", "table", old.self.tree.openElements)


# --- caption, col, colgroup, tbody, td, tfoot, th, thead, tr start tags and </table>: parse error; act as for </caption>;
#     reprocess unless that was ignored (no caption in table scope)
def spec_cap_table_element(old, self, token, result):
    if not ops_are(self, [("call", "processEndTag", "caption")]):
        return False
    return same_object(result, token) if caption_in_table_scope(old) else result is None


# --- </caption>: ignored without a caption in table scope; else implied end tags, pop up to and including the caption, clear
#     the active formatting elements up to the last marker, "in table"
def spec_cap_end_caption(old, self, token, result):
    if not caption_in_table_scope(old):
        return result is None and ops_are(self, []) and grew_by(old, self, 0) and same_object(self.parser.phase, old.self.parser.phase)
    return (result is None and ops_are(self, [("implied", None)]) and len(self.tree.openElements) < len(old.self.tree.openElements)
            and same_object(self.parser.phase, self.parser.phases["inTable"]))


IN_CAPTION = [
    ("startTagTableElement", ["caption", "col", "colgroup", "tbody", "td", "tfoot", "th", "thead", "tr"], spec_cap_table_element),
    ("endTagTable", ["table"], spec_cap_table_element),
    ("endTagCaption", ["caption"], spec_cap_end_caption),
    ("endTagIgnore", ["body", "col", "colgroup", "html", "tbody", "td", "tfoot", "th", "thead", "tr"], spec_head_end_other),
]

for _m, _names, _fn in IN_CAPTION:
    globals()["InCaption_" + _m] = _mk(_m, _names, _fn, "InCaptionPhase")


# ------------------------------------------------------------------------------------------- "in head noscript" mode
# --- </noscript>: pop the noscript element; "in head"
def spec_hn_end_noscript(old, self, token, result):
    return (result is None and ops_are(self, []) and grew_by(old, self, -1)
            and same_object(self.parser.phase, self.parser.phases["inHead"]))


IN_HEAD_NOSCRIPT = [
    ("startTagHeadNoscript", ["head", "noscript"], spec_head_ignore),
    ("startTagOther", None, spec_head_anything_else_reprocess),
    ("endTagBr", ["br"], spec_head_anything_else_reprocess),
    ("endTagNoscript", ["noscript"], spec_hn_end_noscript),
    ("endTagOther", None, spec_head_end_other),
]

for _m, _names, _fn in IN_HEAD_NOSCRIPT:
    globals()["InHeadNoscript_" + _m] = _mk(_m, _names, _fn, "InHeadNoscriptPhase")


# ------------------------------------------------------------------------------------------- "before head" mode
# --- head: insert; point the head element pointer at it; "in head"
def spec_bh_head(old, self, token, result):
    return (result is None and ops_are(self, [("insert", token)]) and grew_by(old, self, 1)
            and same_object(self.tree.headPointer, self.tree.openElements[-1])
            and same_object(self.parser.phase, self.parser.phases["inHead"]))


# --- anything else (other start tags, </head>, </body>, </html>, </br>): act as if <head> had been seen; reprocess
def spec_bh_imply_head(old, self, token, result):
    return same_object(result, token) and ops_are(self, [("call", "startTagHead", "head")])


BEFORE_HEAD = [
    ("startTagHead", ["head"], spec_bh_head),
    ("startTagOther", None, spec_bh_imply_head),
    ("endTagImplyHead", ["head", "body", "html", "br"], spec_bh_imply_head),
    ("endTagOther", None, spec_head_end_other),
]

for _m, _names, _fn in BEFORE_HEAD:
    globals()["BeforeHead_" + _m] = _mk(_m, _names, _fn, "BeforeHeadPhase")


# ------------------------------------------------------------------------------------------- "text" mode
# --- character tokens: insert
def spec_text_chars(old, self, token, result):
    return result is None and ops_are(self, [("text", token["data"])])


# --- any end tag: pop the current node; back to the original insertion mode
def spec_text_end(old, self, token, result):
    return (result is None and ops_are(self, []) and grew_by(old, self, -1)
            and same_object(self.parser.phase, old.self.parser.originalPhase))


TEXT = [
    ("processCharacters", None, spec_text_chars),
    ("endTagOther", None, spec_text_end),
    ("endTagScript", ["script"], spec_text_end),
]

for _m, _names, _fn in TEXT:
    globals()["Text_" + _m] = _mk(_m, _names, _fn, "TextPhase")


# ------------------------------------------------------------------------------------------- "in table text" mode
# --- anything but a character token: flush the pending table character tokens, back to the original mode, reprocess
def spec_tt_flush_and_reprocess(old, self, token, result):
    return (same_object(result, token) and ops_are(self, [("call", "flushCharacters", None)])
            and same_object(self.parser.phase, old.self.originalPhase))


# --- character tokens: U+0000 is ignored (parse error), anything else joins the pending table character tokens
def spec_tt_chars(old, self, token, result):
    pending = self.characterTokens
    if token["data"] == "\u0000":
        return result is None and len(pending) == len(old.self.characterTokens)
    return (result is None and len(pending) == len(old.self.characterTokens) + 1
            and same_object(pending[len(pending) - 1], token))


IN_TABLE_TEXT = [
    ("processStartTag", None, spec_tt_flush_and_reprocess),
    ("processEndTag", None, spec_tt_flush_and_reprocess),
    ("processComment", None, spec_tt_flush_and_reprocess),
    ("processCharacters", None, spec_tt_chars),
]

for _m, _names, _fn in IN_TABLE_TEXT:
    globals()["InTableText_" + _m] = _mk(_m, _names, _fn, "InTableTextPhase")


# ------------------------------------------------------------------------------------------- "after after body" mode
AFTER_AFTER_BODY = [
    ("processSpaceCharacters", None, spec_ab_space),
    ("processCharacters", None, spec_ab_back_to_body),
    ("startTagOther", None, spec_ab_back_to_body),
    ("processEndTag", None, spec_ab_back_to_body),
]

for _m, _names, _fn in AFTER_AFTER_BODY:
    globals()["AfterAfterBody_" + _m] = _mk(_m, _names, _fn, "AfterAfterBodyPhase")


# ------------------------------------------------------------- character tokens in the frameset modes
# in frameset / after frameset: a space character is inserted, any other character is a parse error and ignored
def spec_fs_characters(old, self, token, result):
    keep = only_spaces(token["data"])
    return result is None and ops_are(self, [("text", keep)] if keep else []) and grew_by(old, self, 0)


# after after frameset: space characters go through the in-body rules (the mode's own whitespace handler, which
# the AfterAfterBody_processSpaceCharacters-style contract covers), any other character is ignored
def spec_aafs_characters(old, self, token, result):
    keep = only_spaces(token["data"])
    return (result is None and grew_by(old, self, 0)
            and ops_are(self, [("call", "processSpaceCharacters", None)] if keep else []))


InFrameset_processCharacters = _mk("processCharacters", None, spec_fs_characters, "InFramesetPhase")
AfterFrameset_processCharacters = _mk("processCharacters", None, spec_fs_characters, "AfterFramesetPhase")
AfterAfterFrameset_processCharacters = _mk("processCharacters", None, spec_aafs_characters, "AfterAfterFramesetPhase")
AfterAfterFrameset_processSpaceCharacters = _mk("processSpaceCharacters", None, spec_ab_space,
                                                "AfterAfterFramesetPhase")

"""HTMLUnicodeInputStream implements the stream interface contract (C05) for every segmentation of the
source into reads and every internal chunk size."""
from pyvc.contract import contract, requires, ensures, LoopSpec, clause, implies, in_chars, no_chars, is_str
from spec.stream import view, inv, norm, buffered, split_safe, norm_basics
from contracts.stream import Char, Unget, CharsUntil, STREAM


def concrete_stream(S, name=""):
    """the real object with arbitrary field values (constrained by `requires inv`), reading from a text
    source that may return ANY non-empty prefix (up to the requested size) of what it has left"""
    z3 = S.z3
    # canonical parameterisation of the states satisfying the representation invariant: the chunk is
    # `done ++ todo`, the offset is len(done), the size is len(chunk) (every such state has this form)
    done, todo = S.str("done" + name), S.str("todo" + name)
    from pyvc.values import mk_str, mk_int
    st = S.obj(STREAM, is_abstract=False, chunk=mk_str(z3.Concat(done.z, todo.z)),
               chunkSize=mk_int(z3.Length(done.z) + z3.Length(todo.z)),
               chunkOffset=mk_int(z3.Length(done.z)), errors=S.anylist("errors"),
               prevNumLines=S.int("prevNumLines", lo=0), prevNumCols=S.int("prevNumCols", lo=0),
               _bufferedCharacter=S.one_of(None, lambda: S.char("buffered")),
               _defaultChunkSize=S.int("defaultChunkSize", lo=1), src_rest=S.str("src_rest"),
               reportCharacterErrors=None, ghost_last_read="")
    ds = S.abstract("TextSource")

    def read(I, args, kwargs):
        n = args[0]
        src = st.fields["src_rest"]
        from pyvc.values import zs, zi
        zsrc = zs(src)
        if S.ctx.branch(z3.Length(zsrc) == 0):
            return ""
        d = S.str("read_data")
        r = S.str("src_rest_after")
        S.ctx.word_equation(zsrc, d.z, r.z)
        S.assume(z3.Length(d.z) >= 1)
        S.assume(z3.Length(d.z) <= zi(n))
        st.fields["src_rest"] = r
        st.fields["ghost_last_read"] = I.binop_add(st.fields["ghost_last_read"], d)     # everything read during this call
        return d
    ds.methods["read"] = read
    st.fields["dataStream"] = ds
    return st


def _readchunk_havoc(S, env):
    s = env.d["self"]
    from pyvc.values import mk_int
    c = S.str("chunk_n")
    s.fields["chunk"] = c
    s.fields["chunkSize"] = mk_int(S.z3.Length(c.z))      # what the contract promises, in canonical form
    s.fields["chunkOffset"] = 0
    s.fields["prevNumLines"] = S.int("prevNumLines_n")
    s.fields["prevNumCols"] = S.int("prevNumCols_n")
    s.fields["_bufferedCharacter"] = S.one_of(None, lambda: S.char("buffered_n"))
    s.fields["src_rest"] = S.str("src_rest_n")
    s.fields["errors"] = S.anylist("errors_n")


def readchunk_hints(old, self):
    """proof script for `nothing_lost_nothing_invented`: three small steps, each an obligation of its own.
    `full` is what the code calls `data` before holding back a trailing CR / lead surrogate."""
    full = buffered(old.self) + self.ghost_last_read
    after = buffered(self) + self.src_rest
    taken = full[:-1] if self._bufferedCharacter is not None else full
    # 1. the undelivered text is exactly (what this call normalised) ++ (what is left)
    assert buffered(old.self) + old.self.src_rest == taken + after
    # 2. the cut does not separate a CR from its LF
    assert not (taken.endswith("\r") and after.startswith("\n"))
    # 3. so normalisation distributes over the cut (assumed lemma)
    split_safe(taken, after)
    return True


@contract(STREAM + ".readChunk")
class ReadChunk:
    props = ("C05",)
    havoc = _readchunk_havoc
    split_depth = 4
    budget = {"prove_ms": 40000}

    def inputs(S):
        return dict(self=concrete_stream(S), chunkSize=S.one_of(None, lambda: S.int("chunkSizeArg", lo=1)))

    def result(S, env):
        return S.bool("more")

    @requires
    def invariant_holds(self):
        return inv(self)

    @ensures("C05")
    def invariant_kept(old, self, result):
        return inv(self) and self.chunkOffset == 0

    @ensures("C05")
    def nothing_lost_nothing_invented(old, self, result):
        # the unread part of the old chunk is dropped (callers have taken it); what the stream will deliver
        # from now on is exactly the normalisation of what had not been delivered before
        readchunk_hints(old, self)
        return view(self) == norm(buffered(old.self) + old.self.src_rest)

    @ensures("C05")
    def tells_whether_anything_is_left(old, self, result):
        return result == (self.chunk != "") and implies(not result, view(self) == "")

    def call(i):
        return None


# ---- char / unget on the real object: the same clauses as the interface contract --------------------------
@contract(STREAM + ".char")
class CharConcrete:
    props = ("C05",)

    def inputs(S):
        return dict(self=concrete_stream(S))

    @requires
    def invariant_holds(self):
        return inv(self)

    returns_first_and_advances = Char.__dict__["returns_first_and_advances"]

    @ensures("C05")
    def invariant_kept(self, result):
        return inv(self)

    @ensures("C05")
    def never_delivers_cr(self, result):
        return result is None or (len(result) == 1 and result != "\r")


def unget_pre(self, char):
    # only a character the stream itself delivered last may be put back (never CR: the stream is normalised)
    return char is None or (len(char) == 1 and char != "\r" and
                            (self.chunkOffset == 0 or self.chunk[self.chunkOffset - 1] == char))


@contract(STREAM + ".unget")
class UngetConcrete:
    props = ("C05",)

    def inputs(S):
        return dict(self=concrete_stream(S), char=S.one_of(None, lambda: S.char("char")))

    @requires
    def invariant_holds(self):
        return inv(self)

    @requires
    def puts_back_what_was_read(self, char):
        return unget_pre(self, char)

    puts_back = Unget.__dict__["puts_back"]

    @ensures("C05")
    def invariant_kept(self, result):
        return inv(self)


@contract(STREAM + ".reset")
class ResetConcrete:
    """reset() re-initialises every field a parse writes (C12/C16: positions and pending state cannot leak
    into a re-parse after an encoding change)"""
    props = ("C05", "C12", "C16")
    modular = False

    def inputs(S):
        return dict(self=concrete_stream(S))

    def call(i):
        from html5lib._inputstream import HTMLUnicodeInputStream
        s = HTMLUnicodeInputStream("x")
        f = i["self"]
        s.chunk, s.chunkSize, s.chunkOffset = f["chunk"], f["chunkSize"], f["chunkOffset"]
        s.errors = list(f.get("errors") or []) + ["e"]
        s.prevNumLines, s.prevNumCols = f["prevNumLines"] + 3, f["prevNumCols"] + 5
        s._bufferedCharacter = f["_bufferedCharacter"] or "\r"
        r = s.reset()
        i["self"] = s
        return r

    @ensures("C05", "C12", "C16")
    def everything_reinitialised(self, result):
        return (self.chunk == "" and self.chunkSize == 0 and self.chunkOffset == 0 and len(self.errors) == 0
                and self.prevNumLines == 0 and self.prevNumCols == 0 and self._bufferedCharacter is None)


# ---- charsUntil: every character set the tokenizer passes ------------------------------------------------
SPACE = frozenset("\t\n\x0c \r")
LETTERS = frozenset("abcdefghijklmnopqrstuvwxyzABCDEFGHIJKLMNOPQRSTUVWXYZ")
CHARSETS = {
    "space_run": (SPACE, True),
    "letter_run": (LETTERS, True),
    "data": (("&", "<", "\u0000"), False),
    "rawtext": (("<", "\u0000"), False),
    "attr_dq": (("\"", "&", "\u0000"), False),
    "attr_sq": (("'", "&", "\u0000"), False),
    "attr_unq": (frozenset(("&", ">", "\"", "'", "=", "<", "`", "\u0000")) | SPACE, False),
    "script_escaped": (("<", "-", "\u0000"), False),
    "comment": (("-", "\u0000"), False),
    "cdata_bracket": ("]", False),
    "cdata_gt": (">", False),
    "bogus_comment": (">", False),
    "plaintext": ("\u0000", False),
}


def cu_havoc(S, L):
    s = L.self
    L.rv = S.symlist("rv")
    from pyvc.values import mk_str, mk_int
    z3 = S.z3
    done, todo = S.str("done_l"), S.str("todo_l")
    s.fields["chunk"] = mk_str(z3.Concat(done.z, todo.z))
    s.fields["chunkSize"] = mk_int(z3.Length(done.z) + z3.Length(todo.z))
    s.fields["chunkOffset"] = mk_int(z3.Length(done.z))
    s.fields["prevNumLines"] = S.int("prevNumLines_l")
    s.fields["prevNumCols"] = S.int("prevNumCols_l")
    s.fields["_bufferedCharacter"] = S.one_of(None, lambda: S.char("buffered_l"))
    s.fields["src_rest"] = S.str("src_rest_l")
    s.fields["errors"] = S.anylist("errors_l")


def cu_inv(self, rv, characters, opposite, old):
    got = "".join(rv)
    return (inv(self) and got + view(self) == view(old.self)
            and (in_chars(got, characters) if opposite else no_chars(got, characters)))


def _mk_charsuntil(case, chars, opposite):
    class CharsUntilConcrete:
        props = ("C05",)
        split_depth = 4
        budget = {"prove_ms": 30000}

        def inputs(S):
            return dict(self=concrete_stream(S), characters=chars, opposite=opposite)

        def globals(S):
            # the process-wide regex cache: here the miss path (a hit returns the same compiled regex:
            # ground obligation C12/cache/charsUntilRegEx)
            return {"html5lib._inputstream.charsUntilRegEx": S.dict({})}

        @requires
        def invariant_holds(self):
            return inv(self)

        loops = {"While1": LoopSpec(havoc=cu_havoc, invariant=cu_inv, props=("C05",))}

        maximal_run = CharsUntil.__dict__["maximal_run"]

        @ensures("C05")
        def invariant_kept(self, result):
            return inv(self)
    # the quick tier proves three representative sets (a run INSIDE a set, the data-state set, the largest
    # set); the thorough tier proves all thirteen the tokenizer passes
    CharsUntilConcrete.thorough_only = case not in ("space_run", "data", "attr_unq")
    CharsUntilConcrete.__name__ = "CharsUntilConcrete_" + case
    CharsUntilConcrete.__qualname__ = "CharsUntilConcrete_" + case
    return contract(STREAM + ".charsUntil", case=case)(CharsUntilConcrete)


for _case, (_chars, _opp) in sorted(CHARSETS.items()):
    globals()["CharsUntilConcrete_" + _case] = _mk_charsuntil(_case, _chars, _opp)

"""Contracts for filters/sanitizer.py (C09): gates proved for arbitrary allow-lists (sets known only through
membership), attribute handling explored for maps of at most one attribute (bounded stand-in)."""
from pyvc.contract import (contract, requires, ensures, LoopSpec, clause, implies, same_object, is_str, is_dict,
                           has_key, bounded, iff)

F = "html5lib.filters.sanitizer.Filter"
HTML = "http://www.w3.org/1999/xhtml"
TYPES = ("Doctype", "Characters", "SpaceCharacters", "StartTag", "EndTag", "EmptyTag", "Comment", "Entity")
BOUND = "at most 1 attribute per tag (any name, namespace and value); all allow-lists arbitrary (two attributes cost more than 2 CPU-hours per run and were dropped: the attribute loop treats each attribute on its own)"


def sanitizer(S):
    return S.obj(F, allowed_elements=S.anyset("allowed_elements", pair_keys=True),
                 allowed_attributes=S.anyset("allowed_attributes", pair_keys=True),
                 allowed_css_properties=S.anyset("allowed_css_properties"),
                 allowed_css_keywords=S.anyset("allowed_css_keywords"),
                 allowed_svg_properties=S.anyset("allowed_svg_properties"),
                 allowed_protocols=S.anyset("allowed_protocols"),
                 allowed_content_types=S.anyset("allowed_content_types"),
                 attr_val_is_uri=S.anyset("attr_val_is_uri", pair_keys=True),
                 svg_attr_val_allows_ref=frozenset(), svg_allow_local_href=S.anyset("svg_allow_local_href", pair_keys=True))


ATTR_NAMESPACES = ("http://www.w3.org/1999/xlink", "http://www.w3.org/XML/1998/namespace", "http://www.w3.org/2000/xmlns/")


def san_token(S, L=None, tag_only=False):
    z3 = S.z3
    t = S.str_in("token.type", ("StartTag", "EndTag", "EmptyTag") if tag_only else TYPES)
    d = S.dict({"type": t})
    is_tag = z3.Or(*[t.z == z3.StringVal(x) for x in ("StartTag", "EndTag", "EmptyTag")])
    d.entries["name"] = [S.str("token.name"), z3.Or(is_tag, t.z == z3.StringVal("Doctype"), t.z == z3.StringVal("Entity"))]
    d.entries["namespace"] = [S.one_of(None, lambda: S.str("token.namespace")), is_tag]
    import os
    most = 1      # bound of the stand-in (both tiers)
    k = S.choice(most + 2)
    if k == most + 1:
        S.assume(z3.Not(z3.Or(t.z == z3.StringVal("StartTag"), t.z == z3.StringVal("EmptyTag"))))
        d.entries["data"] = [S.str("token.text"), z3.Or(t.z == z3.StringVal("Characters"), t.z == z3.StringVal("SpaceCharacters"),
                                                          t.z == z3.StringVal("Comment"))]
    else:
        # attribute namespaces of parsed input are the three of the standard's "adjust foreign attributes" table
        # (token invariant: html5parser.adjustForeignAttributes is the only producer of namespaced attributes)
        pairs = [((S.one_of(None, lambda: S.str_in("ns%d" % j, ATTR_NAMESPACES)), S.str("local%d" % j)), S.str("value%d" % j)) for j in range(k)]
        S.assume(z3.Or(t.z == z3.StringVal("StartTag"), t.z == z3.StringVal("EmptyTag")))
        d.entries["data"] = [S.symdict(pairs), True]
    return d


def element_allowed(self, namespace, name):
    return (namespace, name) in self.allowed_elements or (namespace is None and (HTML, name) in self.allowed_elements)


def _st_result(S, env):
    return S.one_of(None, lambda: env.d["token"])


@contract(F + ".sanitize_token")
class SanitizeTokenAbstract:
    props = ("C09",)
    abstract_only = True
    result = _st_result


# ---- sanitize_token: the element gate -------------------------------------------------------------------
def _tok_result(S, env):
    return env.d["token"]


@contract(F + ".allowed_token")
class AllowedTokenAbstract:
    props = ("C09",)
    abstract_only = True
    result = _tok_result


@contract(F + ".disallowed_token")
class DisallowedTokenAbstract:
    props = ("C09",)
    abstract_only = True

    def havoc(S, env):
        t = env.d["token"]
        t.entries["type"] = ["Characters", True]
        t.entries["data"] = [S.str("escaped_markup"), True]
        t.entries.pop("name", None)

    result = _tok_result


@contract(F + ".sanitize_token")
class SanitizeToken:
    props = ("C09", "C10")
    modular = False

    def inputs(S):
        return dict(self=sanitizer(S), token=san_token(S))

    @ensures("C09", "C10")
    def only_allow_listed_elements_survive_as_tags(old, self, token, result):
        t = old.token["type"]
        if t == "Comment":
            return result is None                                  # comments are dropped
        if t == "StartTag" or t == "EndTag" or t == "EmptyTag":
            if element_allowed(self, old.token["namespace"], old.token["name"]):
                return same_object(result, token)
            # anything else leaves only as inert text
            return same_object(result, token) and result["type"] == "Characters" and not has_key(result, "name") and is_str(result["data"])
        return same_object(result, token) and token == old.token      # text, doctype, entities: untouched

    def call(i):
        return None


# ---- disallowed_token: escaped as text ----------------------------------------------------------------------
@contract(F + ".disallowed_token")
class DisallowedToken:
    props = ("C09",)
    modular = False

    def inputs(S):
        t = san_token(S, tag_only=True)
        return dict(self=sanitizer(S), token=t)

    @requires
    def tag_tokens_only(token):
        return token["type"] in ("StartTag", "EndTag", "EmptyTag")

    @ensures("C09")
    @bounded(BOUND)
    def becomes_a_character_token(old, token, result):
        return (same_object(result, token) and result["type"] == "Characters" and not has_key(result, "name")
                and is_str(result["data"]) and result["data"].startswith("<") and result["data"].endswith(">"))


# ---- allowed_token: attributes -------------------------------------------------------------------------------
def _css_result(S, env):
    return S.str("clean_css")


@contract(F + ".sanitize_css")
class SanitizeCssAbstract:
    """the CSS gauntlet is explored natively (bounded enumeration, ground/c09_css.py); here only its type"""
    props = ("C09",)
    abstract_only = True
    result = _css_result


def browser_visible(value):
    """what the code normalises a URL attribute value to before looking at its scheme"""
    import re
    from xml.sax.saxutils import unescape
    return re.sub("[`\x00-\x20\x7f-\xa0\\s]+", '', unescape(value)).lower().replace("�", "")


@contract(F + ".allowed_token")
class AllowedToken:
    props = ("C09", "C03")
    modular = False
    split_depth = 6

    def inputs(S):
        t = san_token(S, tag_only=True)
        return dict(self=sanitizer(S), token=t)

    @ensures("C09")
    @bounded(BOUND)
    def only_allow_listed_attributes_and_urls_remain(old, self, token, result):
        import urllib.parse as urlparse
        from html5lib.filters.sanitizer import data_content_type
        if not has_key(old.token, "data") or old.token["type"] == "EndTag":
            return same_object(result, token)
        ok = same_object(result, token)
        for key, value in list(result["data"].items()):
            # (1) the attribute is on the allow-list and was there before
            ok = ok and key in self.allowed_attributes and has_key(old.token["data"], key)
            if key == (None, "style"):
                continue
            # (2) its value is untouched
            ok = ok and old.token["data"][key] == value
            # (3) a URL attribute that survives has no scheme, or an allowed one (and an allowed content type for data:)
            if key in self.attr_val_is_uri:
                uri = urlparse.urlparse(browser_visible(value))
                if uri.scheme:
                    ok = ok and uri.scheme in self.allowed_protocols
                    if uri.scheme == "data":
                        m = data_content_type.match(uri.path)
                        ok = ok and m is not None and m.group("content_type") in self.allowed_content_types
        return ok

    def candidates():
        urls = ["data:text/html;image/png,<script>alert(1)</script>", "data:image/png;base64,AAAA", "data:text/html,x",
                "javascript:alert(1)", "JaVa\tScRiPt:alert(1)", "http://example.org/", "&#106;avascript:x", "data:foo", "//x/y",
                "data:image/png,ok", "data:text/plain;charset=utf-8,hi"]
        for protocols in (None, {"http"}, {"http", "data"}):
            for u in urls:
                for attr in ("href", "src", "title"):
                    yield {"token": {"type": "StartTag", "name": "a", "namespace": "http://www.w3.org/1999/xhtml",
                                     "data": {(None, attr): u}}, "protocols": sorted(protocols) if protocols else None}

    def call(i):
        import warnings
        warnings.simplefilter("ignore")
        from collections import OrderedDict
        from html5lib.filters import sanitizer
        from pyvc.contract import Old, snapshot
        kw = {}
        if i.get("protocols"):
            kw["allowed_protocols"] = frozenset(i["protocols"])
        f = sanitizer.Filter([], **kw)
        tok = dict(i["token"])
        if isinstance(tok.get("data"), dict):
            tok["data"] = OrderedDict(tok["data"])
        i["old"] = Old({"token": snapshot(dict(tok, data=dict(tok["data"])) if isinstance(tok.get("data"), dict) else dict(tok))})
        i["token"] = tok
        i["self"] = f
        return f.allowed_token(tok)


def iter_step(yielded, token):
    return len(yielded) <= 1 and (len(yielded) == 0 or same_object(yielded[0], token))


@contract(F + ".__iter__")
class SanIter:
    props = ("C09",)
    modular = False

    def inputs(S):
        return dict(self=sanitizer(S))

    loops = {"For1": LoopSpec(element=san_token, props=("C09",), step=[clause("yields_only_what_the_gate_returns", iter_step, "C09")])}

"""Contracts for html5lib/_ihatexml.py::InfosetFilter (C20)."""
from pyvc.contract import contract, requires, ensures, LoopSpec, clause, implies, in_chars, no_chars, is_str, in_re, code

F = "html5lib._ihatexml.InfosetFilter"


def filter_obj(S):
    return S.obj(F, dropXmlnsLocalName=S.bool("dropXmlnsLocalName"), dropXmlnsAttrNs=S.bool("dropXmlnsAttrNs"),
                 preventDoubleDashComments=S.bool("preventDoubleDashComments"),
                 preventDashAtCommentEnd=S.bool("preventDashAtCommentEnd"),
                 replaceFormFeedCharacters=S.bool("replaceFormFeedCharacters"),
                 preventSingleQuotePubid=S.bool("preventSingleQuotePubid"), replaceCache=S.dict({}))


def native_filter(i):
    from html5lib._ihatexml import InfosetFilter
    import warnings
    warnings.simplefilter("ignore")
    flags = {k: v for k, v in i["self"].items() if k not in ("__class__", "__oid__", "replaceCache")}
    return InfosetFilter(**flags)


def comment_havoc(S, L):
    L.data = S.str("data_in_loop")


def comment_inv(data, old):
    return is_str(data) and implies("--" not in old.data, data == old.data)


@contract(F + ".coerceComment")
class CoerceComment:
    props = ("C20",)
    modular = False

    def inputs(S):
        return dict(self=filter_obj(S), data=S.str("data"))

    loops = {"While1": LoopSpec(havoc=comment_havoc, invariant=comment_inv, props=("C20",))}

    @ensures("C20")
    def no_double_dash(self, data, result):
        return implies(self.preventDoubleDashComments, "--" not in result)

    @ensures("C20")
    def no_dash_at_end(self, data, result):
        return implies(self.preventDoubleDashComments or self.preventDashAtCommentEnd, not result.endswith("-"))

    @ensures("C20")
    def untouched_when_already_fine(self, data, result):
        return implies("--" not in data and not data.endswith("-"), result == data)

    @ensures("C20")
    def untouched_when_flags_off(self, data, result):
        return implies(not self.preventDoubleDashComments and not self.preventDashAtCommentEnd, result == data)

    def candidates():
        for flags in ((True, False), (False, True), (True, True), (False, False)):
            for d in ("---", "----", "a--", "a-", "-", "--", "a - -", "a--b---c-", ""):
                yield {"self": {"preventDoubleDashComments": flags[0], "preventDashAtCommentEnd": flags[1]}, "data": d}

    def call(i):
        f = native_filter(i)
        i["self"] = f
        return f.coerceComment(i["data"])


@contract(F + ".coerceAttribute")
class CoerceAttribute:
    props = ("C20",)
    modular = False

    def inputs(S):
        return dict(self=filter_obj(S), name=S.str("name", nonempty=True),
                    namespace=S.one_of(None, lambda: S.str("namespace")))

    def globals(S):
        return {}

    @ensures("C20")
    def dropped_or_coerced(self, name, namespace, result):
        # either the attribute is dropped under an explicit flag, or the name goes through toXmlName
        if self.dropXmlnsLocalName and name.startswith("xmlns:"):
            return result is None
        if self.dropXmlnsAttrNs and namespace == "http://www.w3.org/2000/xmlns/":
            return result is None
        return result is not None

    def call(i):
        f = native_filter(i)
        i["self"] = f
        return f.coerceAttribute(i["name"], i["namespace"])


def _any_int(S, L):
    return S.int("_")


@contract(F + ".coerceCharacters")
class CoerceCharacters:
    props = ("C20",)
    modular = False
    loops = {"For1": LoopSpec(element=_any_int, props=("C20",))}     # the loop only emits warnings

    def inputs(S):
        return dict(self=filter_obj(S), data=S.str("data"))

    @ensures("C20")
    def only_form_feeds_change(self, data, result):
        if self.replaceFormFeedCharacters:
            return result == data.replace("\x0c", " ")
        return result == data

    def call(i):
        f = native_filter(i)
        i["self"] = f
        return f.coerceCharacters(i["data"])


@contract(F + ".getReplacementCharacter")
class GetReplacementCharacter:
    """the cache is a transparent memo: whatever it holds (under its invariant), the answer is escapeChar's"""
    props = ("C20", "C12")
    modular = False

    def inputs(S):
        f = filter_obj(S)
        z3 = S.z3
        fmt = S.ctx.opaque_fn("fmt_05X", [z3.IntSort()], z3.StringSort())
        # invariant of the cache: every entry holds what escapeChar computes for its key
        f.fields["replaceCache"] = S.strmap("replaceCache", forall=lambda k, v: v == z3.Concat(z3.StringVal("U"), fmt(z3.StrToCode(k))))
        return dict(self=f, char=S.char("char"))

    @ensures("C20", "C12")
    def is_escape_of_char(self, char, result):
        return result == "U%05X" % code(char)

    def call(i):
        return native_filter(i).getReplacementCharacter(i["char"])


@contract(F + ".toXmlName")
class ToXmlName:
    """Callers only need that a string comes back.  What the string is -- a legal XML name, unchanged when
    already legal, reversible -- is decided by the exhaustive ground obligations C20/names/... (every BMP
    character in every position) and the bounded symbolic stand-in; listed as an assumed contract here."""
    props = ("C20",)
    abstract_only = True

    def result(S, env):
        return S.str("xmlname")

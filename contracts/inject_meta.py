"""Contract for filters/inject_meta_charset.py (C15): one arbitrary step of the filter's loop."""
from pyvc.contract import contract, requires, ensures, LoopSpec, clause, implies, same_object, is_str, is_fresh

MOD = "html5lib.filters.inject_meta_charset"
TYPES = ("Doctype", "Characters", "SpaceCharacters", "StartTag", "EndTag", "EmptyTag", "Comment")
BOUND = "pending queue of at most 2 tokens, at most 2 attributes per tag"


def im_token(S, name="token"):
    z3 = S.z3
    t = S.str_in(name + ".type", TYPES)
    d = S.dict({"type": t})
    is_tag = z3.Or(*[t.z == z3.StringVal(x) for x in ("StartTag", "EndTag", "EmptyTag")])
    d.entries["name"] = [S.str(name + ".name"), z3.Or(is_tag, t.z == z3.StringVal("Doctype"))]
    k = S.choice(4)
    if k == 3:
        d.entries["data"] = [S.str(name + ".text"), z3.Or(t.z == z3.StringVal("Characters"), t.z == z3.StringVal("SpaceCharacters"),
                                                            t.z == z3.StringVal("Comment"))]
        S.assume(z3.Not(z3.Or(t.z == z3.StringVal("StartTag"), t.z == z3.StringVal("EmptyTag"))))
    else:
        pairs = [((S.one_of(None, lambda: S.str("%s.ns%d" % (name, j))), S.str("%s.local%d" % (name, j))), S.str("%s.value%d" % (name, j)))
                 for j in range(k)]
        d.entries["data"] = [S.symdict(pairs), True]
        S.assume(z3.Or(t.z == z3.StringVal("StartTag"), t.z == z3.StringVal("EmptyTag")))
    return d


def im_havoc(S, L):
    L.state = S.str_in("state", ("pre_head", "in_head", "post_head"))
    L.meta_found = S.bool("meta_found")
    n = S.choice(3)
    L.pending = S.list([S.dict({"type": "StartTag", "name": S.str("pending%d.name" % j), "data": S.dict({})}) if j == 0
                        else S.dict({"type": S.str_in("pending%d.type" % j, TYPES), "name": S.str("pending%d.name" % j)})
                        for j in range(n)])


def im_inv(state, meta_found, pending, self):
    # tokens are held back exactly while inside <head>; the queue starts with the head start tag
    return (state == "in_head") == (len(pending) > 0) if state != "in_head" else len(pending) > 0


def im_element(S, L):
    return im_token(S)


def is_new_meta(t, encoding):
    return (is_fresh(t) and t["type"] == "EmptyTag" and t["name"] == "meta" and len(t["data"]) == 1
            and t["data"][(None, "charset")] == encoding)


def step_passes_everything_once(yielded, pre, token, pending, state, meta_found, self):
    """every token is passed on exactly once and in order -- held in `pending` while inside head --, the
    only additions being the synthetic <meta charset> (and the expansion of an empty <head/>)"""
    enc = self.encoding
    before = list(pre.pending) + [token]
    after = list(yielded) + list(pending)
    if token["type"] == "EmptyTag" and token["name"].lower() == "head" and not pre.meta_found:
        # <head/> without declaration becomes <head><meta charset=...></head>
        return (len(yielded) == 3 and len(pending) == len(pre.pending) and yielded[0]["type"] == "StartTag"
                and yielded[0]["name"] == "head" and is_new_meta(yielded[1], enc) and yielded[2]["type"] == "EndTag"
                and yielded[2]["name"] == "head" and meta_found)
    if token["type"] == "EndTag" and token["name"].lower() == "head" and len(pre.pending) > 0:
        # leaving head: the queue is flushed, with the synthetic meta right after <head> if none was seen
        if pre.meta_found:
            ok = len(after) == len(before)
            for j in range(len(before)):
                ok = ok and j < len(after) and same_object(after[j], before[j])
            return ok and len(pending) == 0 and state == "post_head" and meta_found
        ok = len(after) == len(before) + 1 and same_object(after[0], before[0]) and is_new_meta(after[1], enc)
        for j in range(1, len(before)):
            ok = ok and j + 1 < len(after) and same_object(after[j + 1], before[j])
        return ok and len(pending) == 0 and state == "post_head" and meta_found
    ok = len(after) == len(before)
    for j in range(len(before)):
        ok = ok and j < len(after) and same_object(after[j], before[j])
    return ok


def step_rewrites_only_declarations(yielded, pre, token, pre_element, self, meta_found):
    """the only attribute values that change are charset=... and (with http-equiv=content-type) content=... of
    un-namespaced attributes of meta empty tags; they then declare the output encoding"""
    enc = self.encoding
    if token["type"] != pre_element["type"]:
        return False
    if token["type"] != "StartTag" and token["type"] != "EmptyTag":
        return token == pre_element
    if token["name"] != pre_element["name"]:
        return False
    old_items = list(pre_element["data"].items())
    new_items = list(token["data"].items())
    if len(old_items) != len(new_items):
        return False
    is_meta = token["type"] == "EmptyTag" and token["name"].lower() == "meta"
    ok = True
    for j in range(len(old_items)):
        k, v = old_items[j]
        k2, v2 = new_items[j]
        ok = ok and k2 == k
        if v2 != v:
            ok = ok and is_meta and k[0] is None and ((k[1].lower() == "charset" and v2 == enc)
                                                        or (k[1] == "content" and v2 == "text/html; charset=" + enc))
    return ok


@contract(MOD + ".Filter.__iter__")
class InjectIter:
    props = ("C15",)
    modular = False
    split_depth = 6

    def inputs(S):
        return dict(self=S.obj(MOD + ".Filter", encoding=S.str("encoding", nonempty=True)))

    loops = {"For1": LoopSpec(havoc=im_havoc, invariant=im_inv, element=im_element, props=("C15",),
                              step=[clause("passes_everything_once", step_passes_everything_once, "C15"),
                                    clause("rewrites_only_declarations", step_rewrites_only_declarations, "C15")])}


step_passes_everything_once._bounded = BOUND
step_rewrites_only_declarations._bounded = BOUND

"""Contracts of HTMLUnicodeInputStream's reading interface (char / charsUntil / unget).
Used as assumptions by every tokenizer proof (C02, C14) and proved of the real class for C05."""
from pyvc.contract import contract, requires, ensures, implies, in_chars, no_chars, is_str
from spec.stream import view, first_or_none

STREAM = "html5lib._inputstream.HTMLUnicodeInputStream"


def abstract_stream(S, name="rest"):
    """A stream known only through its interface contract: ghost `view` = the remaining text."""
    return S.obj(STREAM, is_abstract=True, ghost_view=S.str(name), errors=S.list([]))


def _havoc_view(S, env):
    s = env.d["self"]
    if s.fields.get("is_abstract"):
        s.fields["ghost_view"] = S.str("view'")
    else:
        raise NotImplementedError("concrete stream havoc is defined in contracts/inputstream.py")


def _char_native(S, env, I):
    s = env.d["self"]
    if not s.fields.get("is_abstract"):
        raise NotImplementedError
    z3 = S.z3
    v = s.fields["ghost_view"]
    if isinstance(v, str):
        if v == "":
            return None
        s.fields["ghost_view"] = v[1:]
        return v[0]
    if S.ctx.branch(z3.Length(v.z) == 0):
        s.fields["ghost_view"] = ""
        return None
    c = S.char("c")
    t = S.str("view_n")
    S.ctx.word_equation(v.z, c.z, t.z)
    s.fields["ghost_view"] = t
    return c


def _unget_native(S, env, I):
    s = env.d["self"]
    if not s.fields.get("is_abstract"):
        raise NotImplementedError
    ch = env.d["char"]
    if ch is not None:
        s.fields["ghost_view"] = I.binop_add(ch, s.fields["ghost_view"])
    return None


def _charsuntil_native(S, env, I):
    s = env.d["self"]
    if not s.fields.get("is_abstract"):
        raise NotImplementedError
    z3 = S.z3
    chars = env.d["characters"]
    opposite = env.d.get("opposite", False)
    chars = "".join(sorted(chars)) if not isinstance(chars, str) else chars
    v = s.fields["ghost_view"]
    p = S.str("run")
    q = S.str("view'")
    inside, outside = S.charset(chars), S.not_charset(chars)
    K, notK = (inside, outside) if opposite else (outside, inside)
    S.ctx.word_equation(S.zs(v), p.z, q.z)
    S.assume(z3.InRe(p.z, z3.Star(K)))
    S.assume(z3.InRe(q.z, z3.Union(z3.Re(z3.StringVal("")), z3.Concat(notK, z3.Star(z3.AllChar(z3.ReSort(z3.StringSort())))))))
    s.fields["ghost_view"] = q
    return p


@contract(STREAM + ".char")
class Char:
    props = ("C05", "C02")
    abstract_only = True

    havoc = _havoc_view
    assume_native = _char_native

    def result(S, env):
        return S.one_of(None, lambda: S.char("c"))

    @ensures("C05", "C02")
    def returns_first_and_advances(old, self, result):
        v = view(old.self)
        if v == "":
            return result is None and view(self) == ""
        return result == v[0] and view(self) == v[1:]


@contract(STREAM + ".unget")
class Unget:
    props = ("C05", "C02")
    abstract_only = True

    havoc = _havoc_view
    assume_native = _unget_native

    @ensures("C05", "C02")
    def puts_back(old, self, char, result):
        if char is None:
            return view(self) == view(old.self)
        return view(self) == char + view(old.self)


@contract(STREAM + ".charsUntil")
class CharsUntil:
    props = ("C05", "C02")
    abstract_only = True

    havoc = _havoc_view
    assume_native = _charsuntil_native

    def result(S, env):
        return S.str("run")

    @ensures("C05", "C02")
    def maximal_run(old, self, characters, opposite, result):
        # result is the longest prefix of the view made of characters outside `characters`
        # (inside it, when `opposite`); the view advances past it
        v = view(old.self)
        rest = view(self)
        if v != result + rest:
            return False
        if opposite:
            return in_chars(result, characters) and (rest == "" or no_chars(rest[0], characters))
        return no_chars(result, characters) and (rest == "" or in_chars(rest[0], characters))

"""Contracts of HTMLUnicodeInputStream's reading interface (char / charsUntil / unget).
Used as assumptions by every tokenizer proof (C02, C14) and proved of the real class for C05."""
from pyvc.contract import contract, requires, ensures, implies, in_chars, no_chars, is_str
from spec.stream import view, first_or_none

STREAM = "html5lib._inputstream.HTMLUnicodeInputStream"


def abstract_stream(S, name="rest"):
    """A stream known only through its interface contract: ghost `view` = the remaining text."""
    return S.obj(STREAM, is_abstract=True, ghost_view=S.str(name), errors=S.list([]))


def _havoc_view(S, env):
    s = env.d["self"]
    if s.fields.get("is_abstract"):
        s.fields["ghost_view"] = S.str("view'")
    else:
        raise NotImplementedError("concrete stream havoc is defined in contracts/inputstream.py")


@contract(STREAM + ".char")
class Char:
    props = ("C05", "C02")
    abstract_only = True

    havoc = _havoc_view

    def result(S, env):
        return S.one_of(None, lambda: S.char("c"))

    @ensures("C05", "C02")
    def returns_first_and_advances(old, self, result):
        v = view(old.self)
        if v == "":
            return result is None and view(self) == ""
        return result == v[0] and view(self) == v[1:]


@contract(STREAM + ".unget")
class Unget:
    props = ("C05", "C02")
    abstract_only = True

    havoc = _havoc_view

    @ensures("C05", "C02")
    def puts_back(old, self, char, result):
        if char is None:
            return view(self) == view(old.self)
        return view(self) == char + view(old.self)


@contract(STREAM + ".charsUntil")
class CharsUntil:
    props = ("C05", "C02")
    abstract_only = True

    havoc = _havoc_view

    def result(S, env):
        return S.str("run")

    @ensures("C05", "C02")
    def maximal_run(old, self, characters, opposite, result):
        # result is the longest prefix of the view made of characters outside `characters`
        # (inside it, when `opposite`); the view advances past it
        v = view(old.self)
        rest = view(self)
        if v != result + rest:
            return False
        if opposite:
            return in_chars(result, characters) and (rest == "" or no_chars(rest[0], characters))
        return no_chars(result, characters) and (rest == "" or in_chars(rest[0], characters))

"""Contracts for the token constructors of treewalkers/base.py::TreeWalker (C11; `text` also carries C17:
the whitespace filter relies on SpaceCharacters tokens holding ASCII whitespace only)."""
from pyvc.contract import contract, requires, ensures, implies, in_chars, no_chars, is_str

SPACE = "\t\n\x0c \r"


def native_walker():
    from html5lib.treewalkers.base import TreeWalker
    return TreeWalker([])


@contract("html5lib.treewalkers.base.TreeWalker.text")
class Text:
    props = ("C11", "C17")
    modular = False

    def inputs(S):
        return dict(self=S.obj("html5lib.treewalkers.base.TreeWalker"), data=S.str("data"))

    @ensures("C11", "C17")
    def pieces_concatenate_to_the_text(data, result):
        return "".join([t["data"] for t in result]) == data

    @ensures("C11", "C17")
    def at_most_space_chars_space(data, result):
        kinds = [t["type"] for t in result]
        return kinds in (["SpaceCharacters", "Characters", "SpaceCharacters"], ["SpaceCharacters", "Characters"],
                         ["Characters", "SpaceCharacters"], ["Characters"], ["SpaceCharacters"], [])

    @ensures("C11", "C17")
    def space_pieces_are_ascii_whitespace_and_nothing_is_empty(data, result):
        ok = True
        for t in result:
            if t["type"] == "SpaceCharacters":
                ok = ok and in_chars(t["data"], SPACE) and t["data"] != ""
            else:
                # a Characters piece is non-empty and neither starts nor ends with ASCII whitespace
                ok = ok and t["data"] != "" and no_chars(t["data"][0], SPACE) and no_chars(t["data"][-1], SPACE)
        return ok

    def call(i):
        return list(native_walker().text(i["data"]))

"""Contracts for the token constructors of treewalkers/base.py::TreeWalker (C11; `text` also carries C17:
the whitespace filter relies on SpaceCharacters tokens holding ASCII whitespace only)."""
from pyvc.contract import contract, requires, ensures, implies, in_chars, no_chars, is_str

SPACE = "\t\n\x0c \r"


def native_walker():
    from html5lib.treewalkers.base import TreeWalker
    return TreeWalker([])


@contract("html5lib.treewalkers.base.TreeWalker.text")
class Text:
    props = ("C11", "C17")
    modular = False

    def inputs(S):
        return dict(self=S.obj("html5lib.treewalkers.base.TreeWalker"), data=S.str("data"))

    @ensures("C11", "C17")
    def pieces_concatenate_to_the_text(data, result):
        return "".join([t["data"] for t in result]) == data

    @ensures("C11", "C17")
    def at_most_space_chars_space(data, result):
        kinds = [t["type"] for t in result]
        return kinds in (["SpaceCharacters", "Characters", "SpaceCharacters"], ["SpaceCharacters", "Characters"],
                         ["Characters", "SpaceCharacters"], ["Characters"], ["SpaceCharacters"], [])

    @ensures("C11", "C17")
    def space_pieces_are_ascii_whitespace_and_nothing_is_empty(data, result):
        ok = True
        for t in result:
            if t["type"] == "SpaceCharacters":
                ok = ok and in_chars(t["data"], SPACE) and t["data"] != ""
            else:
                # a Characters piece is non-empty and neither starts nor ends with ASCII whitespace
                ok = ok and t["data"] != "" and no_chars(t["data"][0], SPACE) and no_chars(t["data"][-1], SPACE)
        return ok

    def call(i):
        return list(native_walker().text(i["data"]))


# ---- NonRecursiveTreeWalker.__iter__: what is emitted on entering and on leaving a node -------------------
from pyvc.contract import LoopSpec, clause, same_object, is_list, iff

HTML_NS = "http://www.w3.org/1999/xhtml"
VOID = frozenset(["base", "command", "event-source", "link", "meta", "hr", "br", "img", "embed", "param", "area",
                  "col", "input", "source", "track", "wbr"])
DOCUMENT, DOCTYPE, TEXT, ELEMENT, COMMENT, ENTITY = 9, 10, 3, 1, 8, 6
NRW = "html5lib.treewalkers.base.NonRecursiveTreeWalker"


def is_void_html(namespace, name):
    """an HTML void element: no end tag exists for it"""
    return (namespace is None or namespace == "" or namespace == HTML_NS) and name in VOID


def node_details(S):
    """what getNodeDetails may answer for an arbitrary node"""
    k = S.choice(7)
    if k == 0:
        return (DOCUMENT,)
    if k == 1:
        return (DOCTYPE, S.str("dt_name"), S.one_of(None, lambda: S.str("publicId")), S.one_of(None, lambda: S.str("systemId")))
    if k == 2:
        return (TEXT, S.str("text"))
    if k == 3:
        return (ELEMENT, S.one_of(None, lambda: S.str("namespace")), S.str("name"), S.strmap("attributes", pair_keys=True),
                S.bool("hasChildren"))
    if k == 4:
        return (COMMENT, S.str("comment"))
    if k == 5:
        return (ENTITY, S.str("entity"))
    return (S.str("unknown_type"), S.str("unknown_detail"))


def walker(S):
    w = S.obj(NRW, tree=S.abstract("Node"))

    def getNodeDetails(I, args, kwargs):
        node = args[0]
        if "details" not in node.fields:
            node.fields["details"] = node_details(S)
        return node.fields["details"]

    def other_node(I, args, kwargs):
        return S.one_of(None, lambda: S.abstract("Node"))
    w.methods.update(getNodeDetails=getNodeDetails, getFirstChild=other_node, getNextSibling=other_node,
                     getParentNode=other_node)
    return w


def outer_havoc(S, L):
    L.currentNode = S.abstract("Node")


def inner_havoc(S, L):
    L.currentNode = S.abstract("Node")
    L.details = ()
    L.type = 0
    L.hasChildren = False
    L.namespace = None
    L.name = ""
    L.attributes = None
    L.nextSibling = None


def entering_ok(yielded, type, details, hasChildren):
    """the tokens emitted on entering a node, and whether its children will be visited"""
    if type == DOCUMENT:
        return len(yielded) == 0 and hasChildren is True
    if type == DOCTYPE:
        return (len(yielded) == 1 and yielded[0]["type"] == "Doctype" and yielded[0]["name"] == details[0]
                and yielded[0]["publicId"] == details[1] and yielded[0]["systemId"] == details[2] and hasChildren is False)
    if type == TEXT:
        ok = "".join([t["data"] for t in yielded]) == details[0] and hasChildren is False
        for t in yielded:
            ok = ok and (t["type"] == "Characters" or t["type"] == "SpaceCharacters")
        return ok
    if type == ELEMENT:
        namespace, name, attributes, has = details
        if is_void_html(namespace, name):
            # void HTML element: one EmptyTag (plus an error token if the tree gave it children), children skipped
            if len(yielded) == 0 or not (yielded[0]["type"] == "EmptyTag" and yielded[0]["name"] == name
                                         and yielded[0]["namespace"] == namespace
                                         and same_object(yielded[0]["data"], attributes) and hasChildren is False):
                return False
            if len(yielded) == 1:
                return not has
            return len(yielded) == 2 and has and yielded[1]["type"] == "SerializeError"
        return (len(yielded) == 1 and yielded[0]["type"] == "StartTag" and yielded[0]["name"] == name
                and yielded[0]["namespace"] == namespace and same_object(yielded[0]["data"], attributes)
                and hasChildren == has)
    if type == COMMENT:
        return len(yielded) == 1 and yielded[0]["type"] == "Comment" and yielded[0]["data"] == details[0] and hasChildren is False
    if type == ENTITY:
        return len(yielded) == 1 and yielded[0]["type"] == "Entity" and yielded[0]["name"] == details[0] and hasChildren is False
    return len(yielded) == 1 and yielded[0]["type"] == "SerializeError" and hasChildren is False


def outer_step(yielded, type, details, hasChildren, firstChild):
    if firstChild is None:
        return True          # the walk turned to "leaving": checked where the inner loop is entered (inner_inv)
    return entering_ok(yielded, type, details, hasChildren)


def turning_point(yielded, type, details, hasChildren):
    # when the walk turns from "entering" to "leaving": what was emitted for the node just entered
    return entering_ok(yielded, type, details, hasChildren)


def leaving_step(yielded, type, details):
    """on leaving a node: an EndTag exactly for elements that got a StartTag (never for void HTML elements)"""
    if type == ELEMENT:
        namespace, name, attributes, has = details
        if is_void_html(namespace, name):
            return len(yielded) == 0
        return (len(yielded) == 1 and yielded[0]["type"] == "EndTag" and yielded[0]["name"] == name
                and yielded[0]["namespace"] == namespace)
    return len(yielded) == 0


def inner_inv_any(currentNode):
    return True


@contract(NRW + ".__iter__")
class WalkerIter:
    props = ("C11", "C19")
    modular = False

    def inputs(S):
        return dict(self=walker(S))

    loops = {"While1": LoopSpec(havoc=outer_havoc, invariant=inner_inv_any, props=("C11", "C19"),
                                step=[clause("entering_a_node", outer_step, "C11", "C19")]),
             "While2": LoopSpec(havoc=inner_havoc, invariant=inner_inv_any, props=("C11", "C19"),
                                entry=[clause("entering_a_node", turning_point, "C11", "C19")],
                                step=[clause("leaving_a_node", leaving_step, "C11", "C19")])}

"""Contracts for the two surrogate helpers of _utils (C14, C15, C05): used by the encoder's error handler and by the
input stream's character-error reporting."""
from pyvc.contract import contract, requires, ensures, code

U = "html5lib._utils"


@contract(U + ".isSurrogatePair")
class IsSurrogatePair:
    props = ("C14", "C15", "C05")

    def inputs(S):
        return dict(data=S.str("data"))

    @ensures("C14", "C15", "C05")
    def true_iff_lead_then_trail(data, result):
        want = (len(data) == 2 and 0xD800 <= code(data[0:1]) and code(data[0:1]) <= 0xDBFF
                and 0xDC00 <= code(data[1:2]) and code(data[1:2]) <= 0xDFFF)
        return result == want


@contract(U + ".surrogatePairToCodepoint")
class SurrogatePairToCodepoint:
    props = ("C14", "C15", "C05")

    def inputs(S):
        return dict(data=S.str("data"))

    @requires
    def is_a_pair(data):
        return (len(data) == 2 and 0xD800 <= code(data[0:1]) and code(data[0:1]) <= 0xDBFF
                and 0xDC00 <= code(data[1:2]) and code(data[1:2]) <= 0xDFFF)

    @ensures("C14", "C15", "C05")
    def is_the_utf16_decoding(data, result):
        # UTF-16: the code point is 0x10000 + (lead - 0xD800) * 0x400 + (trail - 0xDC00), an astral code point
        hi = code(data[0:1]) - 0xD800
        lo = code(data[1:2]) - 0xDC00
        return result == 0x10000 + hi * 1024 + lo and 0x10000 <= result and result <= 0x10FFFF

"""Contracts for the etree tree walker's navigation (C11): getFirstChild / getNextSibling / getParentNode move through
the DOM-like child sequence of an ElementTree element

        items(P) = [text of P, if non-empty] ++ for each child c of P: [c] ++ [tail of c, if non-empty]

exactly as first child / next sibling / parent of that sequence.  Walker nodes are tuples (element, index in parent,
stack of ancestors, "text" | "tail" | None).  ElementTree elements are the model spec/etmodel.py (validated against
the real ElementTree by ground/c04_builders.py).  Bounded in the number of children (lists have concrete length)."""
from pyvc.contract import contract, requires, ensures, same_object, bounded

W = "html5lib.treewalkers.etree.getETreeBuilder.TreeWalker"
KMAX = 2
BOUND = "parents with at most %d children; text and tails None, empty or an arbitrary string" % KMAX


def et(S, tag, text, tail):
    return S.obj("spec.etmodel.Element", tag=tag, attrib=S.dict({}), text=text, tail=tail, _children=S.list([]))


def opt_text(S, name):
    return S.one_of(None, "", lambda: S.str(name, nonempty=True))


def family(S):
    """a parent P (itself child 0 of a grandparent G) with k children; returns the pieces"""
    k = S.choice(KMAX + 1)
    g = et(S, "g", None, None)
    p = et(S, "p", opt_text(S, "p_text"), opt_text(S, "p_tail"))
    g.fields["_children"].items.append(p)
    kids = []
    for i in range(k):
        c = et(S, "c%d" % i, None, opt_text(S, "c%d_tail" % i))
        p.fields["_children"].items.append(c)
        kids.append(c)
    walker = S.obj(W, tree=g)
    return walker, g, p, kids


def items_of(P):
    """the DOM-like child sequence: ("text", P) / ("elem", child, index) / ("tail", child, index)"""
    out = []
    if P.text:
        out.append(("text", P, -1))
    for i in range(len(P)):
        out.append(("elem", P[i], i))
        if P[i].tail:
            out.append(("tail", P[i], i))
    return out


def denotes(node, item, P, ancestors):
    """the walker node (element, key, parents, flag) denotes `item` of parent P, whose ancestors (root first) are given"""
    if node is None or item is None:
        return node is None and item is None
    kind, el, idx = item
    element, key, parents, flag = node
    if kind == "text":
        # the text of P is represented on P's own tuple: (P, key of P, ancestors of P, "text")
        return same_object(element, P) and flag == "text" and len(parents) == len(ancestors)
    if len(parents) != len(ancestors) + 1 or not same_object(parents[-1], P):
        return False
    for i in range(len(ancestors)):
        if not same_object(parents[i], ancestors[i]):
            return False
    if not (same_object(element, el) and key == idx):
        return False
    return flag == "tail" if kind == "tail" else flag is None


@contract(W + ".getFirstChild")
class GetFirstChild:
    props = ("C11",)
    modular = False

    def inputs(S):
        walker, g, p, kids = family(S)
        return dict(self=walker, node=(p, 0, S.list([g]), None), P=p, G=g)

    @ensures("C11")
    @bounded(BOUND)
    def first_item_of_the_child_sequence(result, P, G):
        its = items_of(P)
        return denotes(result, its[0] if len(its) > 0 else None, P, [G])


@contract(W + ".getNextSibling")
class GetNextSibling:
    props = ("C11",)
    modular = False

    def inputs(S):
        walker, g, p, kids = family(S)
        # an arbitrary item of P's child sequence as the starting node
        which = S.one_of("text", "elem", "tail")
        if which == "text":
            node = (p, 0, S.list([g]), "text")
            pos = -1
        else:
            if not kids:
                from pyvc.engine import PathEnd
                raise PathEnd("infeasible")
            pos = S.choice(len(kids))
            node = (kids[pos], pos, S.list([g, p]), "tail" if which == "tail" else None)
        return dict(self=walker, node=node, P=p, G=g, which=which, pos=pos)

    @requires
    def the_node_denotes_an_item(P, which, pos):
        if which == "text":
            return bool(P.text)
        if which == "tail":
            return bool(P[pos].tail)
        return True

    @ensures("C11")
    @bounded(BOUND)
    def next_item_of_the_child_sequence(result, P, G, which, pos):
        its = items_of(P)
        here = -1
        for i in range(len(its)):
            if its[i][0] == which and its[i][2] == pos:
                here = i
        if here < 0:
            return False
        nxt = its[here + 1] if here + 1 < len(its) else None
        return denotes(result, nxt, P, [G])


@contract(W + ".getParentNode")
class GetParentNode:
    props = ("C11",)
    modular = False

    def inputs(S):
        walker, g, p, kids = family(S)
        which = S.one_of("text", "elem", "tail")
        if which == "text":
            node = (p, 0, S.list([g]), "text")
        else:
            if not kids:
                from pyvc.engine import PathEnd
                raise PathEnd("infeasible")
            pos = S.choice(len(kids))
            node = (kids[pos], pos, S.list([g, p]), "tail" if which == "tail" else None)
        return dict(self=walker, node=node, P=p, G=g)

    @ensures("C11")
    @bounded(BOUND)
    def the_parent_with_its_own_position(result, P, G):
        element, key, parents, flag = result
        return (same_object(element, P) and key == 0 and flag is None and len(parents) == 1 and same_object(parents[0], G))

"""Contract for the tree construction dispatcher (WHATWG 13.2.6, "tree construction dispatcher"), which html5lib has
inline in HTMLParser.mainLoop (C01): for an arbitrary token and an arbitrary current node, the token is handed to the
current insertion mode or to the rules for foreign content exactly as the standard prescribes, through the method that
belongs to the token's kind, once; parse errors go to parseError.  The phases are abstract objects that record the call
and ask for no reprocessing; the tokenizer is an abstract iterator.  (The standard speaks of the *adjusted* current
node, which differs from the current node only when parsing a fragment whose context element is foreign: the property
quantifies over HTML context elements.)"""
from pyvc.contract import contract, requires, ensures, LoopSpec, clause

PARSER = "html5lib.html5parser.HTMLParser"
HTML = "http://www.w3.org/1999/xhtml"
MATHML = "http://www.w3.org/1998/Math/MathML"
SVG = "http://www.w3.org/2000/svg"
CHARACTERS, SPACE, START, END, COMMENT, DOCTYPE, PARSEERROR = 1, 2, 3, 4, 6, 0, 7
METHOD = {CHARACTERS: "processCharacters", SPACE: "processSpaceCharacters", START: "processStartTag", END: "processEndTag",
          COMMENT: "processComment", DOCTYPE: "processDoctype"}
MATHML_TEXT = ("mi", "mo", "mn", "ms", "mtext")


def _recorder(which, method):
    def rec(I, args, kwargs):
        I.top_env["self"].fields["ghost_calls"].items.append((which, method, args[0] if args else None))
        return None if method != "processEOF" else False
    return rec


def phase(S, which):
    methods = {m: _recorder(which, m) for m in list(METHOD.values()) + ["processEOF"]}
    return S.abstract("Phase_" + which, {}, **methods)


def _parse_error(I, args, kwargs):
    I.top_env["self"].fields["ghost_errors"].items.append(args[0])
    return None


def parser(S):
    cur = phase(S, "current")
    foreign = phase(S, "foreign")
    tree = S.abstract("Tree", {"openElements": S.list([]), "defaultNamespace": HTML})
    return S.obj(PARSER, tree=tree, phase=cur, phases=S.dict({"inForeignContent": foreign}), debug=False,
                 tokenizer=S.abstract("Tokenizer"), ghost_calls=S.list([]), ghost_errors=S.list([]), log=S.list([]))


def disp_token(S, L):
    t = S.one_of(CHARACTERS, SPACE, START, END, COMMENT, DOCTYPE, PARSEERROR)
    d = S.dict({"type": t})
    if t in (START, END):
        d.entries["name"] = [S.str("token.name"), True]
        d.entries["data"] = [S.dict({}), True]
        d.entries["selfClosing"] = [S.bool("selfClosing"), True]
        if t == START:
            d.entries["selfClosingAcknowledged"] = [S.bool("acknowledged"), True]
    elif t == PARSEERROR:
        d.entries["data"] = [S.str("errorcode"), True]
    else:
        d.entries["data"] = [S.str("token.data"), True]
    return d


def disp_havoc(S, L):
    # an arbitrary stack of open elements: empty, or ending in an arbitrary current node
    p = L.self
    p.fields["ghost_calls"] = S.list([])
    p.fields["ghost_errors"] = S.list([])
    if S.choice(2) == 0:
        p.fields["tree"].fields["openElements"] = S.list([])
        p.fields["ghost_node"] = None
    else:
        attrs = S.dict({})
        attrs.entries["encoding"] = [S.str("encoding"), S.bool("has_encoding").z]
        node = S.abstract("Node", {"namespace": S.one_of(None, lambda: S.str("node.namespace")), "name": S.str("node.name"),
                                   "attributes": attrs})
        p.fields["tree"].fields["openElements"] = S.anylist("below", tail=(node,))
        p.fields["ghost_node"] = node
    L.type = None
    L.token = None
    L.prev_token = None
    L.new_token = None
    L.currentNode = None
    L.currentNodeNamespace = None
    L.currentNodeName = None
    L.phase = None


ASCII_LOWER = {c: c + 32 for c in range(65, 91)}


def ascii_lower(s):
    return s.translate(ASCII_LOWER)


def goes_to_the_current_mode(node, ttype, tname):
    """the standard's dispatcher: True = process by the rules of the current insertion mode, False = foreign content"""
    if node is None:
        return True
    ns, name = node.namespace, node.name
    if ns == HTML:
        return True
    text_ip = ns == MATHML and name in MATHML_TEXT
    if text_ip and ttype == START and tname != "mglyph" and tname != "malignmark":
        return True
    if text_ip and (ttype == CHARACTERS or ttype == SPACE):
        return True
    if ns == MATHML and name == "annotation-xml" and ttype == START and tname == "svg":
        return True
    html_ip = False
    if ns == MATHML and name == "annotation-xml":
        if "encoding" in node.attributes:
            e = ascii_lower(node.attributes["encoding"])
            html_ip = e == "text/html" or e == "application/xhtml+xml"
    elif ns == SVG and (name == "foreignObject" or name == "desc" or name == "title"):
        html_ip = True
    if html_ip and (ttype == START or ttype == CHARACTERS or ttype == SPACE):
        return True
    return False


def step_dispatch(self, element):
    ttype = element["type"]
    calls = self.ghost_calls
    if ttype == PARSEERROR:
        return len(calls) == 0 and len(self.ghost_errors) == 1 and self.ghost_errors[0] == element["data"]
    tname = element["name"] if (ttype == START or ttype == END) else ""
    which = "current" if goes_to_the_current_mode(self.ghost_node, ttype, tname) else "foreign"
    if len(calls) != 1:
        return False
    c = calls[0]
    return c[0] == which and c[1] == METHOD[ttype] and c[2] == element


def step_unacknowledged_solidus(self, element):
    # a start tag whose trailing solidus nobody acknowledged is a parse error (and only that)
    ttype = element["type"]
    if ttype == PARSEERROR:
        return True
    want = ttype == START and element["selfClosing"] is True and element["selfClosingAcknowledged"] is False
    if want:
        return len(self.ghost_errors) == 1 and self.ghost_errors[0] == "non-void-element-with-trailing-solidus"
    return len(self.ghost_errors) == 0


@contract(PARSER + ".mainLoop")
class MainLoopDispatch:
    props = ("C01",)
    modular = False

    def inputs(S):
        p = parser(S)
        from pyvc.values import NativeFn
        p.methods = {"parseError": _parse_error}
        return dict(self=p)

    loops = {"For1": LoopSpec(havoc=disp_havoc, element=disp_token, props=("C01",),
                              step=[clause("dispatcher_follows_the_standard", step_dispatch, "C01"),
                                    clause("unacknowledged_solidus", step_unacknowledged_solidus, "C01")])}

"""Contracts for filters/alphabeticalattributes.py (C18)."""
from pyvc.contract import contract, requires, ensures, LoopSpec, clause, implies, same_object, is_str, bounded

MOD = "html5lib.filters.alphabeticalattributes"
TYPES = ("Doctype", "Characters", "SpaceCharacters", "StartTag", "EndTag", "EmptyTag", "Comment", "Entity", "SerializeError")


@contract(MOD + "._attr_key")
class AttrKey:
    props = ("C18",)
    modular = False

    def inputs(S):
        return dict(attr=((S.one_of(None, lambda: S.str("namespace")), S.str("name")), S.str("value")))

    @ensures("C18")
    def total_pair_of_strings(attr, result):
        # (namespace or "", local name): two strings, so keys are always comparable (None never meets str)
        ns = attr[0][0]
        return (is_str(result[0]) and is_str(result[1]) and result[1] == attr[0][1]
                and result[0] == ("" if ns is None else ns))

    def call(i):
        from html5lib.filters.alphabeticalattributes import _attr_key
        return _attr_key(i["attr"])


def aa_token(S, L=None):
    z3 = S.z3
    t = S.str_in("token.type", TYPES)
    d = S.dict({"type": t})
    is_tag = z3.Or(*[t.z == z3.StringVal(x) for x in ("StartTag", "EndTag", "EmptyTag")])
    d.entries["name"] = [S.str("token.name"), z3.Or(is_tag, t.z == z3.StringVal("Doctype"), t.z == z3.StringVal("Entity"))]
    import os
    most = 3 if os.environ.get("VERIF_TIER_EFFECTIVE") == "thorough" else 2      # bound of the stand-in
    k = S.choice(most + 2)
    if k == most + 1:
        d.entries["data"] = [S.str("token.text"), z3.Or(t.z == z3.StringVal("Characters"), t.z == z3.StringVal("SpaceCharacters"),
                                                          t.z == z3.StringVal("Comment"), t.z == z3.StringVal("SerializeError"))]
        S.assume(z3.Not(z3.Or(t.z == z3.StringVal("StartTag"), t.z == z3.StringVal("EmptyTag"))))
    else:
        pairs = [((S.one_of(None, lambda: S.str("ns%d" % j)), S.str("local%d" % j)), S.str("value%d" % j)) for j in range(k)]
        d.entries["data"] = [S.symdict(pairs), True]
        S.assume(z3.Or(t.z == z3.StringVal("StartTag"), t.z == z3.StringVal("EmptyTag")))
    return d


def key_of(k):
    return ("" if k[0] is None else k[0], k[1])


def step_only_reorders(yielded, token, pre_element):
    if not (len(yielded) == 1 and same_object(yielded[0], token) and token["type"] == pre_element["type"]):
        return False
    if token["type"] != "StartTag" and token["type"] != "EmptyTag":
        return token == pre_element                      # everything else passes through untouched
    old_items = list(pre_element["data"].items())
    new_items = list(token["data"].items())
    if len(new_items) != len(old_items):
        return False
    ok = True
    # same (name, value) pairs: every old pair occurs in the new map ...
    for k, v in old_items:
        found = False
        for k2, v2 in new_items:
            found = found or (k2 == k and v2 == v)
        ok = ok and found
    # ... in non-decreasing order of (namespace or "", local name)
    for j in range(len(new_items) - 1):
        ok = ok and key_of(new_items[j][0]) <= key_of(new_items[j + 1][0])
    return ok


@contract(MOD + ".Filter.__iter__")
class AAIter:
    props = ("C18",)
    modular = False

    def inputs(S):
        return dict(self=S.obj(MOD + ".Filter"))

    split_depth = 5
    loops = {"For1": LoopSpec(element=aa_token, props=("C18",), step=[clause("only_reorders", step_only_reorders, "C18")])}


step_only_reorders._bounded = "at most 2 (quick tier) / 3 (thorough tier) attributes per tag (any namespaces, local names, values and incoming order)"

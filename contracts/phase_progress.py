"""Progress of reprocessing (C03): an insertion-mode handler that hands the token back to mainLoop ("reprocess the
token") must have changed the insertion mode or shortened the stack of open elements first -- otherwise mainLoop's
`while new_token is not None` loop calls the same handler with the same token in the same state for ever.

One contract per handler that can return its token (found in the AST on every run).  The parser and the tree builder are
abstract objects: elementInScope is an uninterpreted function of (target, variant, stack), generateImpliedEndTags pops an
arbitrary number of elements, inserting pushes, resetInsertionMode picks an arbitrary mode, other phases' process*
methods return an arbitrary token or None.  Loops that pop "until an element named x has been popped" are unrolled three
times (bounded).  The contract says nothing about exceptions (IndexError/AssertionError are allowed here: safety of the
handlers is not decided)."""
import ast

from pyvc.contract import contract, ensures, same_object, bounded
from pyvc import repo

MOD = "html5lib.html5parser"
PHASE_NAMES = ["initial", "beforeHtml", "beforeHead", "inHead", "inHeadNoscript", "afterHead", "inBody", "text", "inTable",
               "inTableText", "inCaption", "inColumnGroup", "inTableBody", "inRow", "inCell", "inSelect", "inSelectInTable",
               "inForeignContent", "afterBody", "inFrameset", "afterFrameset", "afterAfterBody", "afterAfterFrameset"]
BOUND = "pop-until loops unrolled 3 times; abstract parser/tree (see the module docstring)"


# handlers that can hand their token back but are NOT under this contract, with the reason
EXCLUDED = {
    ("InBodyPhase", "endTagHtml"): "calls endTagBody, which iterates over the whole stack to report unclosed elements "
                                   "(a for loop over a list of symbolic length)",
}


def reprocessing_handlers():
    """(class name, method name) of every Phase method that has `return <its token parameter>`"""
    out = []
    tree = repo.module_ast(MOD)
    for c in ast.walk(tree):
        if not (isinstance(c, ast.ClassDef) and c.name.endswith("Phase")):
            continue
        for f in c.body:
            if not isinstance(f, ast.FunctionDef) or len(f.args.args) < 2:
                continue
            tok = f.args.args[1].arg
            if any(isinstance(n, ast.Return) and isinstance(n.value, ast.Name) and n.value.id == tok for n in ast.walk(f)):
                if (c.name, f.name) not in EXCLUDED:
                    out.append((c.name, f.name))
    return out


_PHASE_CLASS = {}


def phase_classes():
    """phase key ("inBody") -> class name ("InBodyPhase"), read from the _phases table"""
    if not _PHASE_CLASS:
        tree = repo.module_ast(MOD)
        for n in ast.walk(tree):
            if isinstance(n, ast.Assign) and any(isinstance(t, ast.Name) and t.id == "_phases" for t in n.targets) and isinstance(n.value, ast.Dict):
                for k, v in zip(n.value.keys, n.value.values):
                    if isinstance(k, ast.Constant) and isinstance(v, ast.Name):
                        _PHASE_CLASS[k.value] = v.id
    return _PHASE_CLASS


def dispatch_table(cls_name, which):
    """({tag name: method name}, default method name) of <cls>.<which> (startTagHandler / endTagHandler), from the AST"""
    tree = repo.module_ast(MOD)
    for c in ast.walk(tree):
        if isinstance(c, ast.ClassDef) and c.name == cls_name:
            table, default = {}, None
            found = False
            for st in c.body:
                if isinstance(st, ast.Assign) and isinstance(st.targets[0], ast.Name) and st.targets[0].id == which \
                        and isinstance(st.value, ast.Call) and st.value.args and isinstance(st.value.args[0], ast.List):
                    found = True
                    for e in st.value.args[0].elts:
                        names, h = e.elts
                        hn = h.attr if isinstance(h, ast.Attribute) else h.id
                        keys = [names.value] if isinstance(names, ast.Constant) else [x.value for x in names.elts] if isinstance(names, (ast.Tuple, ast.List)) else None
                        if keys is None:
                            # a module-level tuple such as headingElements
                            keys = list(repo.get_module(MOD).consts().get(names.id, ())) if isinstance(names, ast.Name) else []
                        for k in keys:
                            table[k] = hn
                if isinstance(st, ast.Assign) and isinstance(st.targets[0], ast.Attribute) and st.targets[0].attr == "default" \
                        and isinstance(st.targets[0].value, ast.Name) and st.targets[0].value.id == which:
                    default = st.value.attr if isinstance(st.value, ast.Attribute) else st.value.id
            if found:
                return table, default
    return None, None


def handler_names(cls_name, meth):
    """tag names the class's tables dispatch to this method; None if it is a default handler or not in a table"""
    names = []
    for which in ("startTagHandler", "endTagHandler"):
        table, default = dispatch_table(cls_name, which)
        if table is None:
            continue
        if default == meth:
            return None
        names += [k for k, v in table.items() if v == meth]
    return sorted(set(names)) or None


def install_dispatch(S, obj, cls_name):
    """processStartTag / processEndTag of a phase object: a token with a concrete name (implied tags) is dispatched through
    the class's own table to the real handler; for an arbitrary name the answer is arbitrary (each handler is under its
    own contract)"""
    def make(which):
        table, default = dispatch_table(cls_name, which)

        def native(I, args, kwargs):
            token = args[0]
            from pyvc.builtins_ import getitem
            name = getitem(I, token, "name")
            if table is not None and isinstance(name, str):
                meth = table.get(name, default)
                return I.call(I.getattr(obj, meth), [token], {})
            return S.one_of(None, lambda: S.dict({"type": S.int("some_type"), "name": S.str("some_name")}))
        return native
    obj.methods = dict(getattr(obj, "methods", {}) or {})
    obj.methods["processStartTag"] = make("startTagHandler")
    obj.methods["processEndTag"] = make("endTagHandler")


def bounded_loops():
    """LoopSpec(unroll=3) for every while loop and every for loop over the stack in the Phase classes' methods"""
    from pyvc.contract import LoopSpec
    out = {}
    tree = repo.module_ast(MOD)
    for c in ast.walk(tree):
        if not (isinstance(c, ast.ClassDef) and c.name.endswith("Phase")):
            continue
        for f in c.body:
            if not isinstance(f, ast.FunctionDef):
                continue
            counts = {}
            for n in ast.walk(f):
                t = type(n).__name__
                counts[t] = counts.get(t, 0) + 1
                if isinstance(n, ast.While):
                    out[("%s.%s.%s" % (MOD, c.name, f.name), "%s%d" % (t, counts[t]))] = LoopSpec(unroll=3)
    return out


def environment(S, cls_name, symbolic_compat_mode=False):
    from pyvc.values import ListV, mk_bool, NativeFn
    from pyvc.builtins_ import node_rec
    z3 = S.z3
    ctx = S.ctx
    tree = S.abstract("Tree", {"openElements": S.nodelist("open"), "activeFormattingElements": S.anylist("afe"),
                               "formPointer": None, "headPointer": None, "insertFromTable": False,
                               "defaultNamespace": "http://www.w3.org/1999/xhtml"})
    in_scope = ctx.opaque_fn("in_scope", [z3.StringSort(), z3.StringSort(), z3.SeqSort(z3.IntSort())], z3.BoolSort())

    def stack_term():
        l = tree.fields["openElements"]
        if l.items:
            return None
        return l.prefix

    def elementInScope(I, args, kwargs):
        from pyvc.values import zs
        target = args[0]
        variant = kwargs.get("variant", args[1] if len(args) > 1 else None)
        from pyvc.values import SStr
        st = stack_term()
        if st is None or not isinstance(target, (str, SStr)):
            return S.bool("in_scope_unknown")
        zt = z3.StringVal(target) if isinstance(target, str) else target.z
        r = in_scope(zt, z3.StringVal(str(variant)), st)
        # the walk starts at the current node: an element of that name on top of the stack is in every scope
        # (assumption: elements reached by name here are HTML elements -- foreign ones are the foreign-content phase's)
        n = z3.Length(st)
        name_of = ctx.opaque_fn("Node_name", [z3.IntSort()], z3.StringSort())
        ctx.assume(z3.Implies(z3.And(n > 0, name_of(st[n - 1]) == zt), r))
        return mk_bool(r)

    def shrink(I, args, kwargs):
        l = tree.fields["openElements"]
        if l.items:
            l.items[:] = []
        k = S.int("kept")
        S.assume(z3.And(k.z >= 0, k.z <= z3.Length(l.prefix)))
        base = l.view[0] if getattr(l, "view", None) is not None else l.prefix
        nl = ListV([], prefix=z3.Extract(base, 0, k.z))
        if getattr(l, "view", None) is not None:
            S.assume(k.z <= l.view[1])
        nl.view = (base, k.z)
        tree.fields["openElements"] = nl
        return None

    def push(I, args, kwargs):
        nid = S.int("new_node")
        tree.fields["openElements"].items.append(node_rec(nid.z))
        return None

    noop = lambda I, a, k: None
    tree.methods = {"elementInScope": elementInScope, "generateImpliedEndTags": shrink, "insertElement": push,
                    "insertText": noop, "insertComment": noop, "insertDoctype": noop, "insertRoot": push,
                    "reconstructActiveFormattingElements": noop, "clearActiveFormattingElements": noop,
                    "elementInActiveFormattingElements": lambda I, a, k: False,
                    "createElement": lambda I, a, k: node_rec(S.int("created").z)}
    phases = {}
    parser = S.abstract("Parser", {"tree": tree, "phases": S.dict(phases), "innerHTML": S.one_of(False, lambda: S.str("innerHTML")),
                                   "framesetOK": S.bool("framesetOK"), "firstStartTag": S.bool("firstStartTag"),
                                   "compatMode": S.one_of("no quirks", "limited quirks", "quirks") if symbolic_compat_mode else "no quirks", "originalPhase": None, "scripting": S.bool("scripting"),
                                   "tokenizer": S.abstract("Tokenizer", {"state": None, "rcdataState": 1, "rawtextState": 2, "plaintextState": 3,
                                                                         "scriptDataState": 4, "dataState": 5,
                                                                         "stream": S.abstract("Stream", {"charEncoding": ("x", "certain")})})})

    def reset_mode(I, a, k):
        parser.fields["phase"] = S.abstract("Phase_after_reset", {})
        return None
    html_ip = ctx.opaque_fn("is_html_integration_point", [z3.IntSort()], z3.BoolSort())
    mathml_ip = ctx.opaque_fn("is_mathml_text_integration_point", [z3.IntSort()], z3.BoolSort())
    parser.methods = {"parseError": noop, "resetInsertionMode": reset_mode, "parseRCDataRawtext": noop,
                      "isHTMLIntegrationPoint": lambda I, a, k: mk_bool(html_ip(a[0].z)),
                      "isMathMLTextIntegrationPoint": lambda I, a, k: mk_bool(mathml_ip(a[0].z)),
                      "adjustMathMLAttributes": noop, "adjustSVGAttributes": noop, "adjustForeignAttributes": noop}
    me = None
    for key, cname in phase_classes().items():
        o = S.obj("%s.%s" % (MOD, cname), parser=parser, tree=tree)
        o.fields["__startTagCache"] = S.dict({})
        o.fields["__endTagCache"] = S.dict({})
        if cname == "InTableTextPhase":
            o.fields["originalPhase"] = None
            o.fields["characterTokens"] = S.list([])
        install_dispatch(S, o, cname)
        parser.fields["phases"].entries[key] = [o, True]
        if cname == cls_name:
            me = o
    if me is None:
        me = S.obj("%s.%s" % (MOD, cls_name), parser=parser, tree=tree)
        install_dispatch(S, me, cls_name)
    if cls_name == "InTableTextPhase":
        me.fields["originalPhase"] = parser.fields["phases"].entries["inTable"][0]
    parser.fields["phase"] = me
    # mode invariants (assumed, listed in the evidence): the element a table mode is named after is in table scope
    # whenever an enclosing table structure is
    st = tree.fields["openElements"].prefix
    def scope(t):
        return in_scope(z3.StringVal(t), z3.StringVal("table"), st)
    outer = z3.Or(scope("table"), scope("tbody"), scope("thead"), scope("tfoot"))
    if cls_name == "InRowPhase":
        S.assume(z3.Implies(outer, scope("tr")))
    if cls_name == "InCellPhase":
        S.assume(z3.Implies(z3.Or(outer, scope("tr")), z3.Or(scope("td"), scope("th"))))
    if cls_name == "InSelectInTablePhase":
        S.assume(in_scope(z3.StringVal("select"), z3.StringVal("select"), st))
    if cls_name == "InForeignContentPhase":
        # what the tree construction dispatcher guarantees when it picks this phase (contracts/parser_dispatch.py):
        # the current node is foreign and no integration point
        n = z3.Length(st)
        ns_of = ctx.opaque_fn("Node_namespace", [z3.IntSort()], z3.StringSort())
        S.assume(z3.And(n > 0, ns_of(st[n - 1]) != z3.StringVal("http://www.w3.org/1999/xhtml"),
                        z3.Not(html_ip(st[n - 1])), z3.Not(mathml_ip(st[n - 1]))))
    return me


def progress(old, self, token, result):
    if not same_object(result, token):
        return True            # nothing handed back (or another phase's answer, which is that phase's business)
    return (not same_object(self.parser.phase, old.self.parser.phase)
            or len(self.tree.openElements) < len(old.self.tree.openElements))


progress._bounded = BOUND


def _make(cls_name, meth):
    class ReprocessingMakesProgress:
        props = ("C03",)
        modular = False
        raises = {"IndexError": True, "AssertionError": True, "KeyError": True}
        loops = bounded_loops()
        budget = {"max_paths": 600}

        def inputs(S):
            me = environment(S, cls_name)
            # the handler is only ever called for the tag names its class's dispatch tables map to it
            names = handler_names(cls_name, meth)
            tname = S.one_of(*names) if names else S.str("token.name")
            token = S.dict({"type": S.int("token.type"), "name": tname, "data": S.symdict([(S.str("attr"), S.str("value"))]),
                            "selfClosing": S.bool("selfClosing"), "selfClosingAcknowledged": S.bool("ack")})
            return dict(self=me, token=token)

        hands_back_only_after_progress = ensures("C03")(progress)
    ReprocessingMakesProgress.__name__ = "Progress_%s_%s" % (cls_name, meth)
    ReprocessingMakesProgress.__qualname__ = ReprocessingMakesProgress.__name__
    return contract("%s.%s.%s" % (MOD, cls_name, meth))(ReprocessingMakesProgress)


import os      # noqa: E402
for _c, _m in (reprocessing_handlers() if os.environ.get("H5V_PROGRESS", "1") == "1" else []):
    globals()["Progress_%s_%s" % (_c, _m)] = _make(_c, _m)

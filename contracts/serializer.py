"""Contract for HTMLSerializer.serialize (C08): one arbitrary token, arbitrary options, arbitrary raw-text state.
Output encoding None (str pieces); attribute maps bounded."""
from pyvc.contract import (contract, requires, ensures, LoopSpec, clause, implies, same_object, is_str, bounded, iff,
                           appended)

SER = "html5lib.serializer.HTMLSerializer"
TYPES = ("Doctype", "Characters", "SpaceCharacters", "StartTag", "EndTag", "EmptyTag", "Comment")
HTML_NS = "http://www.w3.org/1999/xhtml"
RAWTEXT = frozenset(["style", "script", "xmp", "iframe", "noembed", "noframes", "noscript"])
# html5lib's void element table (constants.voidElements), which decides where a trailing solidus is written
VOID = frozenset(["area", "base", "br", "col", "command", "embed", "event-source", "hr", "img", "input", "link", "meta",
                  "param", "source", "track", "wbr"])
BOUND = "at most 1 attribute per tag; a tag that carries an attribute is named a/input/style (quick) or a/input/style/option (thorough); boolean-attribute minimisation only in the thorough tier; output encoding None; Entity tokens not covered"


def serializer(S):
    import os
    thorough = os.environ.get("VERIF_TIER_EFFECTIVE") == "thorough"
    # quoting options are concrete case splits made first: they also drive the split of the exploration into
    # parallel tasks (split_depth)
    return S.obj(SER, quote_attr_values=S.one_of("legacy", "spec", "always"),
                 quote_char=S.one_of('"', "'"), use_best_quote_char=S.bool("use_best_quote_char"),
                 omit_optional_tags=False,
                 minimize_boolean_attributes=S.bool("minimize_boolean_attributes") if thorough else False,
                 use_trailing_solidus=S.bool("use_trailing_solidus"),
                 space_before_trailing_solidus=S.bool("space_before_trailing_solidus"),
                 escape_lt_in_attrs=S.bool("escape_lt_in_attrs"), escape_rcdata=S.bool("escape_rcdata"),
                 resolve_entities=S.bool("resolve_entities"), alphabetical_attributes=False, inject_meta_charset=False,
                 strip_whitespace=False, sanitize=False, errors=S.anylist("errors"), strict=False, encoding=None)


def ser_token(S, L=None):
    import os
    z3 = S.z3
    t = S.one_of(*TYPES)              # the token kind is a case split (concrete per path)
    d = S.dict({"type": t})
    if t in ("StartTag", "EndTag", "EmptyTag", "Doctype"):
        d.entries["name"] = [S.str("token.name"), True]
    if t == "EndTag":
        d.entries["namespace"] = [S.str("token.namespace"), True]
    if t == "Doctype":
        d.entries["publicId"] = [S.one_of(None, lambda: S.str("publicId")), True]
        d.entries["systemId"] = [S.one_of(None, lambda: S.str("systemId")), True]
    thorough = os.environ.get("VERIF_TIER_EFFECTIVE") == "thorough"
    most = 1            # two attributes per tag did not finish within the per-contract time limit (15 min x 16 cores)
    if t in ("Characters", "SpaceCharacters", "Comment"):
        d.entries["data"] = [S.str("token.text"), True]
    elif t in ("StartTag", "EmptyTag"):
        k = S.choice(most + 1)
        if k >= 1:
            # tags that carry attributes: the namespace is an arbitrary string (the None case -- tokens of walkers
            # that do not namespace -- is explored for attribute-free tags, where the raw-text decision is the same code)
            d.entries["namespace"] = [S.str("token.namespace"), True]
        else:
            d.entries["namespace"] = [S.one_of(None, lambda: S.str("token.namespace")), True]
        if k >= 1 and not thorough:
            # quick tier: tags that carry attributes have one of three representative names (ordinary, void,
            # raw text); attribute-free tags keep the name arbitrary
            d.entries["name"] = [S.one_of("a", "input", "style"), True]
        elif k >= 1:
            # thorough tier: additionally a name with its own boolean-attribute table (the full set of names cost 10 CPU-hours)
            d.entries["name"] = [S.one_of("a", "input", "style", "option"), True]
        pairs = [((S.one_of(None, lambda: S.str("ns%d" % j)), S.str("local%d" % j)), S.str("value%d" % j)) for j in range(k)]
        d.entries["data"] = [S.symdict(pairs), True]
    return d


PRE_LIKE = ("pre", "textarea", "listing")


def ser_havoc(S, L):
    L.in_cdata = S.bool("in_cdata")
    L.pre_started = S.bool("pre_started")       # the previous token was the start tag of an HTML pre/textarea/listing
    L.self.fields["errors"] = S.anylist("errors_l")


def ser_inv(in_cdata):
    return in_cdata is True or in_cdata is False or True


def out_of(yielded):
    return "".join(yielded)


def error_recorded(pre, self):
    return len(self.errors) > len(pre.self.errors)


def step_text(yielded, pre, self, token, in_cdata):
    """text never turns into markup: outside raw text it is written with &, <, > escaped; inside raw text it is
    written as it is, and a '</' that would end the element early is reported"""
    t = token["type"]
    if t != "Characters" and t != "SpaceCharacters":
        return True
    out = out_of(yielded)
    data = token["data"]
    if in_cdata != pre.in_cdata:
        return False
    # the parser drops a newline that directly follows <pre>, <textarea>, <listing>: a text that starts with one is
    # written with that newline doubled
    lead = "\n" if (pre.pre_started and data.startswith("\n")) else ""
    if pre.in_cdata:
        return out == lead + data and (("</" not in data) or error_recorded(pre, self))
    if t == "SpaceCharacters":
        return out == lead + data          # whitespace-only token (walker contract, C11): nothing to escape
    return (out == lead + data.replace("&", "&amp;").replace(">", "&gt;").replace("<", "&lt;")
            and "<" not in out and ">" not in out)


def step_raw_text_state(pre, token, in_cdata, self, pre_started):
    """in_cdata is true exactly from the start tag of a raw-text element to its end tag; pre_started exactly after the
    start tag of an HTML pre, textarea or listing element"""
    t = token["type"]
    is_pre = ((t == "StartTag" or t == "EmptyTag") and token["name"] in PRE_LIKE
              and (token["namespace"] is None or token["namespace"] == HTML_NS))
    if pre_started != is_pre:
        return False
    if t == "StartTag" or t == "EmptyTag":
        # raw text elements are HTML elements: a foreign <style>/<script> is ordinary markup to the parser
        if token["name"] in RAWTEXT and not self.escape_rcdata and (token["namespace"] is None or token["namespace"] == HTML_NS):
            return in_cdata is True
        return in_cdata == pre.in_cdata
    if t == "EndTag":
        if token["name"] in RAWTEXT:
            return in_cdata is False
        return in_cdata == pre.in_cdata
    return in_cdata == pre.in_cdata


def step_comment_and_end_tag(yielded, pre, self, token):
    t = token["type"]
    out = out_of(yielded)
    if t == "Comment":
        return out == "<!--" + token["data"] + "-->" and (("--" not in token["data"]) or error_recorded(pre, self))
    if t == "EndTag":
        return out == "</" + token["name"] + ">"
    return True


def _doctype_text(name, pub, sys, q1, q2):
    out = "<!DOCTYPE " + name
    if pub:
        out = out + " PUBLIC " + q1 + pub + q1
    elif sys:
        out = out + " SYSTEM"
    if sys:
        out = out + " " + q2 + sys + q2
    return out + ">"


def step_doctype(yielded, pre, self, token):
    """a doctype is written so that it reads back as the same token: each identifier is delimited by a quote character
    it does not contain -- or, if it contains both, an error is reported"""
    if token["type"] != "Doctype":
        return True
    out = out_of(yielded)
    name, pub, sys = token["name"], token["publicId"], token["systemId"]
    if error_recorded(pre, self):
        return True
    for q1 in ("\"", "'"):
        for q2 in ("\"", "'"):
            if out == _doctype_text(name, pub, sys, q1, q2):
                if pub and q1 in pub:
                    return False
                if sys and q2 in sys:
                    return False
                return True
    return False


def step_attribute_values(yielded, pre, self, token):
    """every attribute is written as  space name [= value]; the value has & (and < on request) escaped whether or
    not it is quoted, is quoted whenever the chosen mode requires it, and never contains its own quote character"""
    t = token["type"]
    if t != "StartTag" and t != "EmptyTag":
        return True
    out = out_of(yielded)
    items = list(token["data"].items())
    if not (out.startswith("<" + token["name"]) and out.endswith(">")):
        return False
    if len(items) == 0:
        return True
    if len(items) > 1:
        return True                      # thorough tier checks the first attribute only in detail (bounded)
    key, value = items[0]
    name = key[1]
    piece = yielded[1:len(yielded) - 1]
    if len(piece) < 2 or piece[0] != " " or piece[1] != name:
        return False
    if len(piece) == 2 or (len(piece) == 3 and (piece[2] == "/" or piece[2] == " /")):
        return self.minimize_boolean_attributes          # value omitted only under boolean minimisation
    if piece[2] != "=":
        return False
    v = value.replace("&", "&amp;")
    if self.escape_lt_in_attrs:
        v = v.replace("<", "&lt;")
    rest = piece[3:]
    if len(rest) >= 3 and (rest[0] == "\"" or rest[0] == "'") and rest[2] == rest[0]:
        q = rest[0]
        shown = rest[1]
        return (shown == (v.replace("'", "&#39;") if q == "'" else v.replace("\"", "&quot;")) and q not in shown)
    # unquoted: only allowed when the mode's test found nothing that needs quoting, and never for empty values; what
    # follows an unquoted value must not be read as part of it (a bare "/" would be: `value=a/>` gives the value "a/")
    return (len(rest) >= 1 and rest[0] == v and value != "" and self.quote_attr_values != "always"
            and (len(rest) == 1 or rest[1] != "/"))


@contract(SER + ".serialize")
class Serialize:
    props = ("C08", "C10", "C07")
    modular = False
    split_depth = 15

    def inputs(S):
        return dict(self=serializer(S), treewalker=S.abstract("Walker"), encoding=None)

    loops = {"For1": LoopSpec(havoc=ser_havoc, invariant=ser_inv, element=ser_token, props=("C08", "C10", "C07"),
                              step=[clause("text_is_escaped_or_reported", step_text, "C08", "C10", "C07"),
                                    clause("raw_text_state", step_raw_text_state, "C08", "C07"),
                                    clause("comment_and_end_tag", step_comment_and_end_tag, "C08", "C07"),
                                    clause("attribute_values", step_attribute_values, "C08", "C10", "C07"),
                                    clause("doctype", step_doctype, "C08", "C07")])}


step_text._bounded = BOUND
step_raw_text_state._bounded = BOUND
step_comment_and_end_tag._bounded = BOUND
step_attribute_values._bounded = BOUND
step_doctype._bounded = BOUND


def _step_replay(inputs, ghost, clause):
    """native replay of a loop-body obligation: drive the real serialize() into the solver's raw-text state with a
    <style> start tag, feed the token, observe the state afterwards with a probe text token"""
    import types
    from html5lib.serializer import HTMLSerializer
    token = ghost.get("loop_element")
    in_cdata = bool(ghost.get("loop_state.in_cdata"))
    pre_started = bool(ghost.get("loop_state.pre_started"))
    if in_cdata and pre_started:
        return None                     # no token sequence reaches that state (pre is not a raw text element)
    opts = {k: v for k, v in inputs["self"].items() if k in HTMLSerializer.options}
    if in_cdata and opts.get("escape_rcdata"):
        return None                     # no token sequence reaches that state
    s = HTMLSerializer(**opts)
    marks = {}

    def walker():
        if in_cdata:
            yield {"type": "StartTag", "name": "style", "data": {}}
        if pre_started:
            yield {"type": "StartTag", "name": "pre", "data": {}}
        marks["errors"] = list(s.errors)
        marks["at"] = len(out)
        yield token
        marks["end"] = len(out)
        yield {"type": "Characters", "data": "<"}
    out = []
    for piece in s.serialize(walker()):
        out.append(piece)
    yielded = out[marks["at"]:marks["end"]]
    after = out[marks["end"]:] == ["<"]
    errors_after = list(s.errors)
    s.errors = errors_after[:len(errors_after)]       # the probe never records an error unless '</'
    pre = types.SimpleNamespace(in_cdata=in_cdata, pre_started=pre_started, self=types.SimpleNamespace(errors=marks["errors"]))
    is_pre = (token.get("type") in ("StartTag", "EmptyTag") and token.get("name") in PRE_LIKE
              and token.get("namespace") in (None, HTML_NS))
    env = dict(yielded=yielded, pre=pre, self=s, token=token, in_cdata=after, pre_started=is_pre)
    import inspect
    v = clause.fn(**{p: env[p] for p in inspect.signature(clause.fn).parameters})
    return {"observed": "serialize yields %r for %r (raw text before: %r, after: %r, errors %r)" % (yielded, token, in_cdata, after, errors_after),
            "clause_value": bool(v), "confirmed": not bool(v)}


Serialize.step_replay = staticmethod(_step_replay)


# ------------------------------------------------------------------------------------------- two-token streams
# The step contract above is about ONE arbitrary iteration from an arbitrary raw-text state.  This second contract runs
# the real loop (no loop contract: the two iterations are executed) from the real initial state on every stream
# <start tag of any name, no attributes> <text token>: whatever state the loop carries from the tag to the text is the
# code's own.  Bounded (two tokens), replayable on the real serializer.
def _two_tokens_call(i):
    from html5lib.serializer import HTMLSerializer
    opts = {k: v for k, v in i["self"].items() if k in HTMLSerializer.options}
    s = HTMLSerializer(**opts)
    i["self"] = s
    return list(s.serialize(i["treewalker"]))


@contract(SER + ".serialize")
class SerializeTagThenText:
    props = ("C08", "C10", "C07")
    modular = False
    loops = {"For1": LoopSpec()}           # no invariant, no element: the loop is executed on the concrete two-token list

    def inputs(S):
        name = S.str("name")
        data = S.str("text")
        start = S.dict({"type": "StartTag", "name": name, "namespace": S.one_of(None, lambda: S.str("namespace")), "data": S.dict({})})
        chars = S.dict({"type": "Characters", "data": data})
        ser = serializer(S)
        ser.fields["errors"] = S.list([])
        return dict(self=ser, treewalker=S.list([start, chars]), encoding=None, name=name, data=data)

    call = _two_tokens_call

    @ensures("C08", "C10", "C07")
    @bounded("streams of one start tag (any name, no attributes) followed by one text token")
    def text_after_a_start_tag_is_escaped_unless_raw_text(self, name, data, result, treewalker):
        out = "".join(result)
        tag = "<" + name
        if name in VOID and self.use_trailing_solidus:
            tag = tag + (" /" if self.space_before_trailing_solidus else "/")
        tag = tag + ">"
        ns = treewalker[0]["namespace"]
        if name in RAWTEXT and not self.escape_rcdata and (ns is None or ns == HTML_NS):
            return out == tag + data and (("</" not in data) or len(self.errors) > 0)
        if name in PRE_LIKE and (ns is None or ns == HTML_NS) and data.startswith("\n"):
            tag = tag + "\n"
        return out == tag + data.replace("&", "&amp;").replace(">", "&gt;").replace("<", "&lt;")

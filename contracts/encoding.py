"""Contracts for the encoding decision of HTMLBinaryInputStream (C06)."""
from pyvc.contract import contract, requires, ensures, LoopSpec, clause, implies, is_none, same_object

BIN = "html5lib._inputstream.HTMLBinaryInputStream"
LOOKUP = "html5lib._inputstream.lookupEncoding"


# ---- codecs as abstract values ---------------------------------------------------------------------
def codec_of_label(S, label, I=None):
    """what lookupEncoding(label) returns: None for an unknown/absent label, else the codec record whose
    id is a function of the label (two labels of the same encoding may share an id)"""
    z3 = S.z3
    if label is None:
        return None
    valid = S.ctx.opaque_fn("label_is_valid", [z3.StringSort()], z3.BoolSort())
    ident = S.ctx.opaque_fn("label_codec_id", [z3.StringSort()], z3.IntSort())
    zl = S.zs(label) if not isinstance(label, bytes) else z3.StringVal(label.decode("latin-1"))
    known = {"utf-8": 1, "windows-1252": 2, "utf-16le": 3, "utf-16be": 4, "utf-32le": 5, "utf-32be": 6}
    name = S.ctx.opaque_fn("Encoding_name", [z3.IntSort()], z3.StringSort())
    for lab, k in known.items():
        # ground facts about webencodings (obligation C06/labels/...): these labels resolve, to distinct codecs
        S.assume(z3.Implies(zl == z3.StringVal(lab), z3.And(valid(zl), ident(zl) == k)))
        S.assume(name(k) == z3.StringVal(lab))
    if not S.ctx.branch(valid(zl)):
        return None
    return S.rec("Encoding", ident(zl), name="str", codec_info="opaque")


def _lookup_native(S, env, I):
    enc = env.d["encoding"]
    from pyvc.values import SBytes
    if isinstance(enc, (bytes, SBytes)):
        # bytes labels are decoded as ASCII first; a non-ASCII label is no label
        if isinstance(enc, bytes):
            try:
                enc = enc.decode("ascii")
            except UnicodeDecodeError:
                return None
        else:
            z3 = S.z3
            ok = z3.InRe(enc.z, z3.Star(z3.Range(z3.StringVal("\x00"), z3.StringVal("\x7f"))))
            if not S.ctx.branch(ok):
                return None
            from pyvc.values import SStr
            enc = SStr(enc.z)
    return codec_of_label(S, enc, I)


@contract(LOOKUP)
class LookupEncoding:
    """webencodings.lookup is outside the repository: assumed to be a function of the label."""
    props = ("C06",)
    abstract_only = True
    assume_native = _lookup_native


def raw_stream(S, name="raw"):
    """seekable byte stream: content + position (BytesIO / BufferedStream, C05)"""
    content = S.bytes(name)
    st = S.abstract("RawStream", fields={"content": content, "pos": 0})
    z3 = S.z3

    def read(I, args, kwargs):
        n = args[0]
        from pyvc import builtins_ as B
        data = B.getitem(I, st.fields["content"], B.SliceV(st.fields["pos"], I.binop_add(st.fields["pos"], n), None))
        st.fields["pos"] = I.binop_add(st.fields["pos"], B.py_len(I, data))
        return data

    def seek(I, args, kwargs):
        st.fields["pos"] = args[0]
        return None

    def tell(I, args, kwargs):
        return st.fields["pos"]
    st.methods.update(read=read, seek=seek, tell=tell)
    return st


def stream_obj(S, **extra):
    fields = dict(rawStream=raw_stream(S), numBytesMeta=1024, numBytesChardet=100, ghost_bom=None, ghost_meta=None)
    fields.update(extra)
    return S.obj(BIN, **fields)


def label(S, name):
    return S.one_of(None, lambda: S.str(name))


# ---- detectBOM ----------------------------------------------------------------------------------------
@contract(BIN + ".detectBOM")
class DetectBOM:
    props = ("C06",)

    def inputs(S):
        return dict(self=stream_obj(S))

    def havoc(S, env):
        env.d["self"].fields["rawStream"].fields["pos"] = S.int("pos_after_bom", lo=0, hi=4)

    def result(S, env):
        r = S.one_of(None, lambda: S.rec("Encoding", S.int("bom_codec").z, name="str", codec_info="opaque"))
        env.d["self"].fields["ghost_bom"] = r        # ghost: what the BOM step answered (named by the caller's contract)
        return r

    @ensures("C06")
    def bom_decides(old, self, result):
        # five BOMs, UTF-32 before UTF-16; afterwards the stream delivers exactly what follows the BOM
        raw = old.self.rawStream.content
        rest = raw[self.rawStream.pos:]
        if raw.startswith(b"\xef\xbb\xbf"):
            return result is not None and result.name == "utf-8" and rest == raw[3:]
        if raw.startswith(b"\xff\xfe\x00\x00"):
            return result is not None and result.name == "utf-32le" and rest == raw[4:]
        if raw.startswith(b"\x00\x00\xfe\xff"):
            return result is not None and result.name == "utf-32be" and rest == raw[4:]
        if raw.startswith(b"\xff\xfe"):
            return result is not None and result.name == "utf-16le" and rest == raw[2:]
        if raw.startswith(b"\xfe\xff"):
            return result is not None and result.name == "utf-16be" and rest == raw[2:]
        return result is None and self.rawStream.pos == 0

    def call(i):
        from html5lib._inputstream import HTMLBinaryInputStream
        s = HTMLBinaryInputStream(i["self"]["rawStream"]["content"], useChardet=False)
        s.rawStream.seek(0)
        r = s.detectBOM()

        class _O(object):
            pass
        old = _O(); old.self = _O(); old.self.rawStream = _O(); old.self.rawStream.content = i["self"]["rawStream"]["content"]
        me = _O(); me.rawStream = _O(); me.rawStream.pos = s.rawStream.tell()
        from pyvc.contract import Old
        i["old"] = Old({"self": old.self})
        i["self"] = me
        return r


# ---- detectEncodingMeta ------------------------------------------------------------------------------
@contract("html5lib._inputstream.EncodingParser.getEncoding")
class GetEncoding:
    """the <meta> prescan proper: decided by its own (partly bounded) obligations; here only its type"""
    props = ("C06",)
    abstract_only = True

    def result(S, env):
        return S.one_of(None, lambda: S.rec("Encoding", S.int("prescan_codec").z, name="str", codec_info="opaque"))


@contract(BIN + ".detectEncodingMeta")
class DetectEncodingMeta:
    props = ("C06",)

    def inputs(S):
        return dict(self=stream_obj(S))

    def havoc(S, env):
        env.d["self"].fields["rawStream"].fields["pos"] = 0

    def result(S, env):
        r = S.one_of(None, lambda: S.rec("Encoding", S.int("meta_codec").z, name="str", codec_info="opaque"))
        env.d["self"].fields["ghost_meta"] = r
        return r

    @ensures("C06")
    def never_utf16_and_rewinds(old, self, result):
        # a UTF-16 declaration in <meta> means UTF-8; the stream is back at the start
        return (result is None or (result.name != "utf-16le" and result.name != "utf-16be")) and self.rawStream.pos == 0


# ---- determineEncoding: the documented precedence ---------------------------------------------------------
def spec_precedence(bom, override, transport, meta, parent, likely, default, fallback):
    """(codec, confidence) per the documented order; each argument is a codec or None"""
    if bom is not None:
        return (bom, "certain")
    if override is not None:
        return (override, "certain")
    if transport is not None:
        return (transport, "certain")
    if meta is not None:
        return (meta, "tentative")
    if parent is not None and not parent.name.startswith("utf-16"):
        return (parent, "tentative")
    if likely is not None:
        return (likely, "tentative")
    if default is not None:
        return (default, "tentative")
    return (fallback, "tentative")


def ghost_determine(S, env):
    return {}


@contract(BIN + ".determineEncoding")
class DetermineEncoding:
    props = ("C06",)
    modular = False
    split_depth = 6

    def inputs(S):
        me = stream_obj(S, override_encoding=label(S, "override"), transport_encoding=label(S, "transport"),
                        same_origin_parent_encoding=label(S, "parent"), likely_encoding=label(S, "likely"),
                        default_encoding=label(S, "default"))
        return dict(self=me, chardet=S.one_of(True, False))

    @ensures("C06")
    def documented_precedence(old, self, result):
        # BOM, override, transport (certain); <meta> prescan, parent unless UTF-16, likely, default,
        # windows-1252 (tentative).  chardet is not importable here (it would sit between likely and default).
        from html5lib._inputstream import lookupEncoding
        if self.ghost_bom is not None:
            want = (self.ghost_bom, "certain")
        else:
            want = spec_precedence(None, lookupEncoding(self.override_encoding), lookupEncoding(self.transport_encoding),
                                   self.ghost_meta, lookupEncoding(self.same_origin_parent_encoding),
                                   lookupEncoding(self.likely_encoding), lookupEncoding(self.default_encoding),
                                   lookupEncoding("windows-1252"))
        return result[0] is not None and result[0] == want[0] and result[1] == want[1]

    def call(i):
        return None


# ---- changeEncoding: a <meta> met during tree construction ---------------------------------------------
def _reset_havoc(S, env):
    me = env.d["self"]
    me.fields["ghost_resets"] = me.fields.get("ghost_resets", 0) + 1


@contract(BIN + ".reset")
class Reset:
    """re-creates the decoder from charEncoding[0] over rawStream and clears the chunk state (C05/C12 prove
    the unicode part); for the encoding logic only the fact that it was called matters"""
    props = ("C06",)
    abstract_only = True
    havoc = _reset_havoc


def reparse_is_justified(old, self, newEncoding):
    from html5lib._inputstream import lookupEncoding
    new = lookupEncoding(newEncoding)
    if new is None:
        return False
    if new.name in ("utf-16be", "utf-16le"):
        new = lookupEncoding("utf-8")
    return (new != old.self.charEncoding[0] and self.charEncoding[0] == new and self.charEncoding[1] == "certain"
            and self.rawStream.pos == 0 and self.ghost_resets == old.self.ghost_resets + 1)


@contract(BIN + ".changeEncoding")
class ChangeEncoding:
    props = ("C06",)
    modular = False

    def inputs(S):
        cur = S.rec("Encoding", S.int("current_codec").z, name="str", codec_info="opaque")
        me = stream_obj(S, charEncoding=(cur, S.str_in("confidence", ("tentative", "certain"))), ghost_resets=0)
        me.fields["rawStream"].fields["pos"] = S.int("pos", lo=0)
        return dict(self=me, newEncoding=S.one_of(lambda: S.str("label"), lambda: S.bytes("label_bytes")))

    @requires
    def only_while_tentative(self, newEncoding):
        return self.charEncoding[1] != "certain"

    raises = {"_ReparseException": reparse_is_justified}

    @ensures("C06")
    def no_restart_means_same_encoding_now_certain_or_unknown_label(old, self, newEncoding, result):
        from html5lib._inputstream import lookupEncoding
        new = lookupEncoding(newEncoding)
        if new is None:
            return self.charEncoding == old.self.charEncoding and self.ghost_resets == old.self.ghost_resets
        if new.name in ("utf-16be", "utf-16le"):
            new = lookupEncoding("utf-8")       # a declared UTF-16 in <meta> means UTF-8
        return (new == old.self.charEncoding[0] and self.charEncoding[0] == new and self.charEncoding[1] == "certain"
                and self.ghost_resets == old.self.ghost_resets)

    def candidates():
        for cur in ("windows-1252", "utf-8", "iso-8859-2"):
            for lab in ("utf-16", "utf-16le", "utf-16be", "utf-8", "windows-1252", "latin1", "iso-8859-2", "bogus", b"utf-16be", b"\xff", b"utf-8"):
                yield {"current": cur, "newEncoding": lab}

    def call(i):
        # lifted: a real stream whose tentative encoding is `current` (default_encoding), then changeEncoding
        from html5lib import _inputstream as IS
        from pyvc.contract import Old
        cur = i.get("current", "windows-1252")

        class Counting(IS.HTMLBinaryInputStream):
            ghost_resets = 0

            def reset(self):
                self.ghost_resets += 1
                IS.HTMLBinaryInputStream.reset(self)
        s = Counting(b"<p>some text", default_encoding=cur, useChardet=False)
        s.rawStream.read(5)
        s.ghost_resets = 0

        class _O(object):
            pass
        o = _O()
        o.charEncoding, o.ghost_resets = s.charEncoding, 0
        i["old"] = Old({"self": o})
        raised = None
        try:
            s.changeEncoding(i["newEncoding"])
        finally:
            me = _O()
            me.charEncoding, me.ghost_resets = s.charEncoding, s.ghost_resets
            me.rawStream = _O()
            me.rawStream.pos = s.rawStream.tell()
            i["self"] = me
        return None


# ---- EncodingParser.handleMeta: one <meta> element of the prescan -------------------------------------------
EP = "html5lib._inputstream.EncodingParser"


def _meta_parser(S):
    z3 = S.z3
    me = S.obj(EP, encoding=S.one_of(None, lambda: S.rec("Encoding", S.int("earlier_codec").z, name="str", codec_info="opaque")),
               ghost_pragma_seen=False, ghost_content_seen=False)
    data = S.abstract("EncodingBytes", fields={"currentByte": S.bytes("currentByte")})
    me.fields["data"] = data

    def getAttribute(I, args, kwargs):
        # the next attribute of this element, or None: an arbitrary (name, value) pair of byte strings
        r = S.one_of(None, lambda: (S.bytes("attr_name"), S.bytes("attr_value")))
        if r is not None:
            from pyvc import builtins_ as B
            is_pragma = B.z_and([I.eq(r[0], b"http-equiv"), I.eq(r[1], b"content-type")])
            old = me.fields["ghost_pragma_seen"]
            me.fields["ghost_pragma_seen"] = B.mk_bool(B.z_or([I.truth(old), is_pragma])) if not isinstance(B.z_or([I.truth(old), is_pragma]), bool) else B.z_or([I.truth(old), is_pragma])
        return r
    me.methods["getAttribute"] = getAttribute
    return me


def _content_parse_native(S, env, I):
    return S.one_of(None, lambda: S.bytes("content_charset"))


@contract("html5lib._inputstream.ContentAttrParser.parse")
class ContentParse:
    """extracts the charset=... label from a content attribute (byte-level parser; not under contract yet)"""
    props = ("C06",)
    abstract_only = True
    assume_native = _content_parse_native


def meta_havoc(S, L):
    L.hasPragma = S.bool("hasPragma")
    L.pendingEncoding = S.one_of(None, lambda: S.rec("Encoding", S.int("pending_codec").z, name="str", codec_info="opaque"))


def meta_inv(self, hasPragma, pendingEncoding, old):
    # the two pieces of per-element state describe THIS element only: no pragma yet unless one was seen,
    # and until the loop exits the result slot is untouched
    return (self.encoding == old.self.encoding) and implies(hasPragma, self.ghost_pragma_seen)


@contract(EP + ".handleMeta")
class HandleMeta:
    props = ("C06",)
    modular = False

    def inputs(S):
        return dict(self=_meta_parser(S))

    loops = {"While1": LoopSpec(havoc=meta_havoc, invariant=meta_inv, props=("C06",))}

    def globals(S):
        # EncodingBytes(value) is bytes (lower-cased) with a cursor; only its being bytes matters here
        from pyvc.values import NativeFn
        return {"html5lib._inputstream.EncodingBytes": NativeFn("EncodingBytes", lambda I, a, k: a[0])}

    @ensures("C06")
    def keeps_going_only_without_a_decision(old, self, result):
        # True = keep scanning: then no encoding was recorded by this element
        return implies(result is True, self.encoding == old.self.encoding) and implies(result is False, self.encoding is not None)

    def call(i):
        return None

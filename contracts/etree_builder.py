"""Contracts for the etree tree builder's node primitives (C04).

Abstract view of a wrapper element e with children c1..cn (the DOM-like tree every backend must build):

        view(e) = [t0, c1, t1, ..., cn, tn]     t0 = e._element.text, ti = ci._element.tail  (None read as "")

and the representation invariant the wrapper relies on (removeChild, reparentChildren consult the shadow list):

        rep(e):  e._childNodes[i]._element is e._element[i]  and  e._childNodes[i].parent is e   for all i, same length

Each primitive is proved to change view(e) exactly as the corresponding DOM operation does (the DOM builder's
primitives are one-line calls of the minidom operation, which is the specification here) and to keep rep(e).
ElementTree elements are the model spec/etmodel.py.  Bounded in the number of children (listed as bounded stand-in):
list lengths are concrete in pyvc, so every clause is explored for 0..KMAX children and every position."""
from pyvc.contract import contract, requires, ensures, same_object, bounded

EL = "html5lib.treebuilders.etree.getETreeBuilder.Element"
KMAX = 3
BOUND = "wrapper elements with at most %d children (every position of the reference/removed node), text and every tail None or an arbitrary string" % KMAX


# ------------------------------------------------------------------------------------------- symbolic inputs
def et(S, tag, text, tail):
    return S.obj("spec.etmodel.Element", tag=tag, attrib=S.dict({}), text=text, tail=tail, _children=S.list([]))


def opt_text(S, name):
    return S.one_of(None, lambda: S.str(name))


def wrapper(S, label, k, text=False, tail=False):
    """a well-formed wrapper with k children; returns (wrapper, kids list, texts list)"""
    el = et(S, label, opt_text(S, label + "_text") if text else None, opt_text(S, label + "_tail") if tail else None)
    w = S.obj(EL, _name=label, _namespace=None, _element=el, nameTuple=("http://www.w3.org/1999/xhtml", label),
              parent=None, _childNodes=S.list([]), _flags=S.list([]))
    kids = []
    for i in range(k):
        kid, _, _ = wrapper(S, "%s_c%d" % (label, i), 0, tail=True)
        kid.fields["parent"] = w
        w.fields["_childNodes"].items.append(kid)
        el.fields["_children"].items.append(kid.fields["_element"])
        kids.append(kid)
    texts = [el.fields["text"]] + [c.fields["_element"].fields["tail"] for c in kids]
    return w, kids, texts


def family(S, with_pos):
    k = S.choice(KMAX + 1)
    w, kids, texts = wrapper(S, "p", k, text=True)
    d = dict(self=w, kids=S.list(kids), texts=S.list(texts))
    if with_pos:
        if k == 0:
            from pyvc.engine import PathEnd
            raise PathEnd("infeasible")
        d["j"] = S.choice(k)
    return d


# ------------------------------------------------------------------------------------------- clause helpers
def norm(t):
    return "" if t is None else t


def rep(e):
    if len(e._childNodes) != len(e._element):
        return False
    for i in range(len(e._childNodes)):
        if not same_object(e._childNodes[i]._element, e._element[i]):
            return False
        if not same_object(e._childNodes[i].parent, e):
            return False
    return True


def children_are(e, expected):
    if len(e._element) != len(expected):
        return False
    for i in range(len(expected)):
        if not same_object(e._element[i], expected[i]._element):
            return False
    return True


def slots(e):
    out = [norm(e._element.text)]
    for i in range(len(e._element)):
        out.append(norm(e._element[i].tail))
    return out


def norm_all(texts):
    out = []
    for t in texts:
        out.append(norm(t))
    return out


# ------------------------------------------------------------------------------------------- native replay
def build_native(i):
    """real wrapper objects for the same family: i = {k, j, texts, node_tail, data}"""
    from xml.etree import ElementTree
    from html5lib.treebuilders import etree as E
    mod = E.getETreeModule(ElementTree)
    k = i["k"] if "k" in i else len(i.get("kids") or [])
    texts = list(i.get("texts") or [None] * (k + 1))
    w = mod.Element("p")
    w._element.text = texts[0]
    kids = []
    for n in range(k):
        c = mod.Element("c%d" % n)
        w.appendChild(c)
        c._element.tail = texts[n + 1]
        kids.append(c)
    return mod, w, kids, texts


# ------------------------------------------------------------------------------------------- contracts
@contract(EL + ".appendChild")
class AppendChild:
    props = ("C04",)
    modular = False

    def inputs(S):
        d = family(S, False)
        node, _, _ = wrapper(S, "n", 0, tail=True)
        d["node"] = node
        d["node_tail"] = node.fields["_element"].fields["tail"]
        return d

    def call(i):
        mod, w, kids, texts = build_native(i)
        node = mod.Element("n")
        node._element.tail = i.get("node_tail")
        i["self"], i["kids"], i["texts"], i["node"] = w, list(kids), texts, node
        return w.appendChild(node)

    @ensures("C04")
    @bounded(BOUND)
    def appended_last_and_rep_kept(self, kids, node, texts):
        return (rep(self) and children_are(self, kids + [node]) and same_object(node.parent, self)
                and slots(self) == norm_all(texts) + [norm(node._element.tail)])


@contract(EL + ".insertBefore")
class InsertBefore:
    props = ("C04",)
    modular = False

    def inputs(S):
        d = family(S, True)
        node, _, _ = wrapper(S, "n", 0, tail=True)
        d["node"] = node
        d["node_tail"] = node.fields["_element"].fields["tail"]
        d["refNode"] = d["kids"].items[d["j"]]
        return d

    @ensures("C04")
    @bounded(BOUND)
    def inserted_before_ref_and_rep_kept(self, kids, node, texts, j):
        nt = norm_all(texts)
        return (rep(self) and children_are(self, kids[:j] + [node] + kids[j:]) and same_object(node.parent, self)
                and slots(self) == nt[:j + 1] + [norm(node._element.tail)] + nt[j + 1:])

    def candidates():
        for k in (1, 2, 3):
            for j in range(k):
                yield {"k": k, "j": j, "texts": [None, "a", None, "b"][:k + 1]}

    def call(i):
        mod, w, kids, texts = build_native(i)
        node = mod.Element("n")
        node._element.tail = i.get("node_tail")
        i["self"], i["kids"], i["texts"], i["node"] = w, list(kids), texts, node
        return w.insertBefore(node, kids[i["j"]])


@contract(EL + ".removeChild")
class RemoveChild:
    props = ("C04",)
    modular = False

    def inputs(S):
        d = family(S, True)
        d["node"] = d["kids"].items[d["j"]]
        return d

    @requires
    def no_text_follows_the_node(node):
        # ElementTree keeps the text that follows an element in that element's tail, so it travels with the node.
        # The parser removes only elements that are still open (adoption agency, <frameset> replacing <body>);
        # that no text follows them is an assumption about those call sites (listed in the evidence)
        return node._element.tail is None or node._element.tail == ""

    def call(i):
        mod, w, kids, texts = build_native(i)
        i["self"], i["kids"], i["texts"], i["node"] = w, list(kids), texts, kids[i["j"]]
        return w.removeChild(kids[i["j"]])

    @ensures("C04")
    @bounded(BOUND)
    def removed_and_rep_kept(self, kids, node, texts, j):
        nt = norm_all(texts)
        return (rep(self) and children_are(self, kids[:j] + kids[j + 1:]) and node.parent is None
                and slots(self) == nt[:j + 1] + nt[j + 2:])


@contract(EL + ".insertText")
class InsertText:
    props = ("C04",)
    modular = False

    def inputs(S):
        d = family(S, False)
        k = len(d["kids"].items)
        d["data"] = S.str("data")
        pos = S.choice(k + 1)              # k: no reference node (append)
        d["pos"] = pos
        d["insertBefore"] = d["kids"].items[pos] if pos < k else None
        return d

    @ensures("C04")
    @bounded(BOUND)
    def text_lands_in_the_slot_before_the_reference(self, kids, texts, data, pos):
        nt = norm_all(texts)
        return (rep(self) and children_are(self, kids)
                and slots(self) == nt[:pos] + [nt[pos] + data] + nt[pos + 1:])

    def candidates():
        for k in (0, 1, 2):
            for pos in range(k + 1):
                yield {"k": k, "pos": pos, "texts": [None, "a", None][:k + 1], "data": "x"}

    def call(i):
        mod, w, kids, texts = build_native(i)
        i["self"], i["kids"], i["texts"] = w, list(kids), texts
        return w.insertText(i["data"], kids[i["pos"]] if i["pos"] < len(kids) else None)


@contract(EL + ".hasContent")
class HasContent:
    props = ("C04",)
    modular = False

    def inputs(S):
        return family(S, False)

    def call(i):
        mod, w, kids, texts = build_native(i)
        i["self"], i["kids"], i["texts"] = w, list(kids), texts
        return w.hasContent()

    @ensures("C04")
    @bounded(BOUND)
    def true_iff_text_or_children(self, kids, texts, result):
        return result == (norm(texts[0]) != "" or len(kids) > 0)


@contract(EL + ".reparentChildren")
class ReparentChildren:
    props = ("C04",)
    modular = False

    def inputs(S):
        d = family(S, False)
        np, _, _ = wrapper(S, "np", 0, text=True)
        d["newParent"] = np
        d["np_text"] = np.fields["_element"].fields["text"]
        return d

    def call(i):
        mod, w, kids, texts = build_native(i)
        np = mod.Element("np")
        np._element.text = i.get("np_text")
        i["self"], i["kids"], i["texts"], i["newParent"] = w, list(kids), texts, np
        return w.reparentChildren(np)

    @ensures("C04")
    @bounded(BOUND + "; the new parent has no children (as at both call sites: a fresh clone, a fresh fragment)")
    def children_and_text_move_in_order(self, newParent, kids, texts, np_text):
        nt = norm_all(texts)
        if not (rep(self) and rep(newParent) and children_are(self, []) and children_are(newParent, kids)):
            return False
        if slots(self) != [""]:
            return False
        return slots(newParent) == [norm(np_text) + nt[0]] + nt[1:]


# ------------------------------------------------------------------------------------------- names (unbounded)
@contract(EL + "._getETreeTag")
class GetETreeTag:
    props = ("C04",)

    def inputs(S):
        w, _, _ = wrapper(S, "p", 0)
        return dict(self=w, name=S.str("name"), namespace=S.one_of(None, lambda: S.str("namespace")))

    def result(S, env):
        return S.str("etree_tag")

    @ensures("C04")
    def clark_notation_iff_namespaced(name, namespace, result):
        if namespace is None:
            return result == name
        return result == "{" + namespace + "}" + name


@contract(EL + "._setName")
class SetName:
    props = ("C04",)
    modular = False

    def inputs(S):
        w, _, _ = wrapper(S, "p", 0)
        w.fields["_namespace"] = S.one_of(None, lambda: S.str("namespace"))
        return dict(self=w, name=S.str("name"))

    @ensures("C04")
    def tag_follows_name(self, name):
        if self._namespace is None:
            return self._name == name and self._element.tag == name
        return self._name == name and self._element.tag == "{" + self._namespace + "}" + name


@contract(EL + "._setNamespace")
class SetNamespace:
    props = ("C04",)
    modular = False

    def inputs(S):
        w, _, _ = wrapper(S, "p", 0)
        w.fields["_name"] = S.str("name")
        return dict(self=w, namespace=S.one_of(None, lambda: S.str("namespace")))

    @ensures("C04")
    def tag_follows_namespace(self, namespace):
        if namespace is None:
            return self._namespace is None and self._element.tag == self._name
        return self._namespace == namespace and self._element.tag == "{" + namespace + "}" + self._name


@contract(EL + "._setAttributes")
class SetAttributes:
    props = ("C04",)

    def inputs(S):
        w, _, _ = wrapper(S, "p", 0)
        w.fields["_element"].fields["attrib"] = S.symdict([(S.str("stale_key"), S.str("stale_value"))])
        kind = S.one_of("plain", "namespaced", "both")
        pairs = []
        if kind in ("plain", "both"):
            pairs.append((S.str("k0"), S.str("v0")))
        if kind in ("namespaced", "both"):
            pairs.append(((S.one_of(None, lambda: S.str("prefix")), S.str("local"), S.str("ns")), S.str("v1")))
        return dict(self=w, attributes=S.symdict(pairs), pairs=S.list([S.list(list(p)) for p in pairs]))

    @requires
    def names_differ(pairs):
        if len(pairs) < 2:
            return True
        return pairs[0][0] != "{" + pairs[1][0][2] + "}" + pairs[1][0][1]

    @ensures("C04")
    @bounded("at most one plain and one namespaced attribute (any names and values)")
    def attrib_is_exactly_the_given_attributes(self, pairs):
        a = self._element.attrib
        if len(a) != len(pairs):
            return False
        for p in pairs:
            k = p[0]
            name = k if isinstance(k, str) else "{" + k[2] + "}" + k[1]
            if name not in a or a[name] != p[1]:
                return False
        return True

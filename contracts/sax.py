"""Contract for treeadapters/sax.py::to_sax (C19)."""
from pyvc.contract import contract, requires, ensures, LoopSpec, clause, implies, same_object, appended

XMLNS = {"xlink": "http://www.w3.org/1999/xlink", "xml": "http://www.w3.org/XML/1998/namespace",
         "xmlns": "http://www.w3.org/2000/xmlns/"}
TYPES = ("Doctype", "Characters", "SpaceCharacters", "StartTag", "EndTag", "EmptyTag", "Comment")


def handler(S):
    h = S.abstract("ContentHandler", fields={"events": S.anylist("events")})

    def rec(name):
        def m(I, args, kwargs):
            h.fields["events"].items.append((name,) + tuple(args))
            return None
        return m
    for n in ("startDocument", "endDocument", "startPrefixMapping", "endPrefixMapping", "startElementNS", "endElementNS",
              "characters"):
        h.methods[n] = rec(n)
    return h


def sax_token(S, L=None):
    """any token a tree walker emits for a parsed tree (Entity / SerializeError tokens cannot occur there:
    assumption stated in the evidence)"""
    z3 = S.z3
    t = S.str_in("token.type", TYPES)
    d = S.dict({"type": t})
    is_tag = z3.Or(*[t.z == z3.StringVal(x) for x in ("StartTag", "EndTag", "EmptyTag")])
    d.entries["name"] = [S.str("token.name"), z3.Or(is_tag, t.z == z3.StringVal("Doctype"))]
    d.entries["namespace"] = [S.one_of(None, lambda: S.str("token.namespace")), is_tag]
    data = S.one_of(lambda: S.strmap("token.attrs", pair_keys=True), lambda: S.str("token.text"))
    if not isinstance(data, type(S.str("x"))):
        S.assume(z3.Or(t.z == z3.StringVal("StartTag"), t.z == z3.StringVal("EmptyTag")))
        d.entries["data"] = [data, True]
    else:
        S.assume(z3.Not(z3.Or(t.z == z3.StringVal("StartTag"), t.z == z3.StringVal("EmptyTag"))))
        d.entries["data"] = [data, z3.Or(t.z == z3.StringVal("Characters"), t.z == z3.StringVal("SpaceCharacters"),
                                          t.z == z3.StringVal("Comment"))]
    return d


def events_of(pre, handler):
    return appended(pre.handler.events, handler.events)


def one_token(pre, handler, token):
    """the events one token produces"""
    ev = events_of(pre, handler)
    t = token["type"]
    if t == "Doctype" or t == "Comment":
        return len(ev) == 0                                    # omitted by design
    if t == "Characters" or t == "SpaceCharacters":
        return len(ev) == 1 and ev[0] == ("characters", token["data"])
    name = (token["namespace"], token["name"])
    if t == "EndTag":
        return len(ev) == 1 and ev[0] == ("endElementNS", name, token["name"])
    # StartTag / EmptyTag: the attributes handed over are the token's own map with the standard qname table
    if not (len(ev) >= 1 and ev[0][0] == "startElementNS" and ev[0][1] == name and ev[0][2] == token["name"]
            and same_object(ev[0][3].attrs, token["data"]) and ev[0][3].qnames == QNAMES):
        return False
    if t == "EmptyTag":
        return len(ev) == 2 and ev[1] == ("endElementNS", name, token["name"])
    return len(ev) == 1


QNAMES = {("http://www.w3.org/1999/xlink", "actuate"): "xlink:actuate", ("http://www.w3.org/1999/xlink", "arcrole"): "xlink:arcrole",
          ("http://www.w3.org/1999/xlink", "href"): "xlink:href", ("http://www.w3.org/1999/xlink", "role"): "xlink:role",
          ("http://www.w3.org/1999/xlink", "show"): "xlink:show", ("http://www.w3.org/1999/xlink", "title"): "xlink:title",
          ("http://www.w3.org/1999/xlink", "type"): "xlink:type", ("http://www.w3.org/XML/1998/namespace", "base"): "xml:base",
          ("http://www.w3.org/XML/1998/namespace", "lang"): "xml:lang", ("http://www.w3.org/XML/1998/namespace", "space"): "xml:space",
          ("http://www.w3.org/2000/xmlns/", "xmlns"): "xmlns", ("http://www.w3.org/2000/xmlns/", "xlink"): "xmlns:xlink"}


def _attrs_impl(S):
    from pyvc.values import NativeFn

    def AttributesNSImpl(I, args, kwargs):
        return S.abstract("AttributesNSImpl", fields={"attrs": args[0], "qnames": args[1]})
    return NativeFn("AttributesNSImpl", AttributesNSImpl)


@contract("html5lib.treeadapters.sax.to_sax")
class ToSax:
    props = ("C19",)
    modular = False

    def inputs(S):
        return dict(walker=S.abstract("Walker"), handler=handler(S))

    def globals(S):
        return {"html5lib.treeadapters.sax.AttributesNSImpl": _attrs_impl(S)}

    loops = {"For2": LoopSpec(element=sax_token, props=("C19",), step=[clause("events_of_one_token", one_token, "C19")])}

    @ensures("C19")
    def one_document_with_balanced_prefix_mappings(old, handler, result):
        # the frame around the token events: startDocument, the three prefix mappings, ..., their ends, endDocument
        ev = appended(old.handler.events, handler.events)
        if len(ev) != 8 or ev[0] != ("startDocument",) or ev[7] != ("endDocument",):
            return False
        started = [ev[1], ev[2], ev[3]]
        ended = [ev[4], ev[5], ev[6]]
        ok = True
        for e in started:
            ok = ok and e[0] == "startPrefixMapping" and XMLNS[e[1]] == e[2]
        for e in ended:
            ok = ok and e[0] == "endPrefixMapping"
        return ok and sorted([e[1] for e in started]) == ["xlink", "xml", "xmlns"] and sorted([e[1] for e in ended]) == ["xlink", "xml", "xmlns"]

"""Contracts for HTMLParser.parseError (C16)."""
from pyvc.contract import contract, requires, ensures, implies


def strict_and_recorded(old, self, errorcode, datavars):
    # raising is allowed only in strict mode, and only after the error has been recorded
    return (self.strict and len(self.errors) == len(old.self.errors) + 1
            and self.errors[-1][1] == errorcode)


@contract("html5lib.html5parser.HTMLParser.parseError")
class ParseErrorContract:
    props = ("C16",)

    def inputs(S):
        stream = S.abstract("Stream", position=lambda I, a, k: (S.int("line", lo=1), S.int("col", lo=0)))
        tok = S.abstract("Tokenizer", fields={"stream": stream})
        me = S.obj("html5lib.html5parser.HTMLParser", strict=S.bool("strict"), errors=S.anylist("errors"),
                   tokenizer=tok)
        E = S.I.lookup_global("E", S.I_module("html5lib.html5parser"))
        code = S.str_in("errorcode", sorted(E))
        datavars = S.one_of(None, lambda: S.dict({"name": S.str("dv")}))
        return dict(self=me, errorcode=code, datavars=datavars)

    raises = {"ParseError": strict_and_recorded}

    @ensures("C16")
    def recorded_and_not_strict(old, self, errorcode, datavars, result):
        # returning normally: the error was appended (position, code, variables) and strict is off
        return (not self.strict and len(self.errors) == len(old.self.errors) + 1
                and self.errors[-1][1] == errorcode and result is None
                and (self.errors[-1][2] == datavars if datavars is not None else len(self.errors[-1][2]) == 0)
                and self.errors[-1][0][0] >= 1 and self.errors[-1][0][1] >= 0)

    def call(i):
        import html5lib
        from html5lib import html5parser
        p = html5parser.HTMLParser(strict=i["self"]["strict"])
        p.tokenizer = html5parser._tokenizer.HTMLTokenizer("x")
        p.errors = list(i["self"].get("errors") or [])
        i["self"] = p
        return p.parseError(i["errorcode"], i["datavars"])

"""Contracts for the backend-neutral tree builder helpers that work on the stack of open elements (C03, C01).

The stack is a list of arbitrary length: node identities, with name and namespace functions of the identity
(S.nodelist).  The bottom element is the html element on every path of the parser (insertRoot / insertHtmlElement
run before any other element is pushed); that is this file's precondition and is NOT proved here."""
from pyvc.contract import contract, requires, ensures, LoopSpec, is_prefix_list

TB = "html5lib.treebuilders.base.TreeBuilder"
# the standard's list (spec/treeconstruction.py IMPLIED_END_TAGS); rb and rtc are a known finding (region below)
IMPLIED = frozenset(("dd", "dt", "li", "optgroup", "option", "p", "rb", "rp", "rt", "rtc"))
RUBY_GAP = ("rb", "rtc")


def builder(S):
    return S.obj(TB, openElements=S.nodelist("openElements"), activeFormattingElements=S.list([]),
                 headPointer=None, formPointer=None, insertFromTable=False, document=None, defaultNamespace=None)


def giet_havoc(S, L):
    # canonical state: the stack at the loop head is the first k elements of the stack on entry (the function
    # does not touch the stack before the loop, so the current value is still the entry value here)
    from pyvc.values import ListV
    z3 = S.z3
    base = L.self.fields["openElements"].prefix
    k = S.int("kept_l")
    S.assume(z3.And(k.z >= 0, k.z <= z3.Length(base)))
    lst = ListV([], prefix=z3.Extract(base, 0, k.z))
    lst.view = (base, k.z)
    L.self.fields["openElements"] = lst
    L.name = S.str("name_l")


def giet_inv(self, name, old, exclude):
    t0 = old.self.openElements[-1].name
    n, n0 = len(self.openElements), len(old.self.openElements)
    return (n >= 1 and is_prefix_list(self.openElements, old.self.openElements)
            and self.openElements[0].name == "html" and name == self.openElements[-1].name
            and (n == n0 or (t0 in IMPLIED and t0 != exclude and t0 not in RUBY_GAP))
            and (n < n0 or name == t0))


def giet_measure(self):
    return len(self.openElements)


@contract(TB + ".generateImpliedEndTags")
class GenerateImpliedEndTags:
    props = ("C03", "C01")
    budget = {"prove_ms": 60000}
    no_recursion = True          # one stack frame per popped element would overflow on deep nesting (C03)

    def inputs(S):
        return dict(self=builder(S), exclude=S.one_of(None, lambda: S.str("exclude")))

    @requires
    def stack_starts_with_html(self):
        return len(self.openElements) >= 1 and self.openElements[0].name == "html"

    loops = {"While1": LoopSpec(havoc=giet_havoc, invariant=giet_inv, decreases=giet_measure, props=("C03", "C01"))}

    @ensures("C03", "C01")
    def pops_exactly_the_implied_run(old, self, exclude):
        # WHATWG "generate implied end tags": pop while the current node is one of the listed elements (html5lib's
        # list lacks rb/rtc -- elements it does not know) other than the excluded one; nothing else is touched
        top = self.openElements[-1].name
        return (is_prefix_list(self.openElements, old.self.openElements) and len(self.openElements) >= 1
                and (top not in IMPLIED or top == exclude))

    @ensures("C03", "C01")
    def stops_at_the_first_other_element(old, self, exclude):
        # if the current node was not an implied-end-tag element to begin with, the stack is unchanged
        t0 = old.self.openElements[-1].name
        if t0 not in IMPLIED or t0 == exclude:
            return len(self.openElements) == len(old.self.openElements)
        return len(self.openElements) < len(old.self.openElements)


def region_rb_rtc(old, self):
    """known finding C01-unsupported-elements: rb and rtc are not popped"""
    return self.openElements[-1].name in RUBY_GAP


# ------------------------------------------------------------------------------------------- bounded: scope tests
from pyvc.contract import bounded, same_object        # noqa: E402
from spec import treeconstruction as T                # noqa: E402

NODE = "html5lib.treebuilders.base.Node"
DEPTH = 3
SCOPE_BOUND = "stacks of the html element plus at most %d further elements (any names and namespaces)" % DEPTH


def node(S, label, ns=None, name=None):
    ns = S.str(label + "_ns") if ns is None else ns
    name = S.str(label + "_name") if name is None else name
    return S.obj(NODE, name=name, namespace=ns, nameTuple=(ns, name), parent=None, value=None, attributes=S.dict({}),
                 childNodes=S.list([]), _flags=S.list([]))


def stack(S):
    k = S.choice(DEPTH + 1)
    return [node(S, "html", T.HTML, "html")] + [node(S, "e%d" % i) for i in range(k)]


def native_builder():
    from html5lib.treebuilders import getTreeBuilder
    tb = getTreeBuilder("etree")(True)
    tb.reset()
    return tb


def native_node(d):
    import types
    if d is None:
        return None
    d = dict(d)
    return types.SimpleNamespace(name=d["name"], namespace=d["namespace"], nameTuple=tuple(d["nameTuple"]))


def boundary(variant):
    if variant is None:
        return T.SCOPE
    if variant == "button":
        return T.BUTTON_SCOPE
    if variant == "list":
        return T.LIST_ITEM_SCOPE
    return T.TABLE_SCOPE


def has_in_scope(nodes, target, variant):
    """the standard's "has an element in the specific scope": walk from the current node down; True at the target,
    False at a boundary of the scope (select scope: everything but optgroup/option is a boundary)"""
    i = len(nodes) - 1
    while i >= 0:
        nt = nodes[i].nameTuple
        if nt == target:
            return True
        if variant == "select":
            if nt not in T.SELECT_SCOPE_EXCEPT:
                return False
        elif nt in boundary(variant):
            return False
        i = i - 1
    return False


@contract(TB + ".elementInScope")
class ElementInScope:
    props = ("C01", "C03")

    def inputs(S):
        nodes = stack(S)
        tb = builder(S)
        tb.fields["openElements"] = S.list(nodes)
        return dict(self=tb, nodes=S.list(nodes), target=S.str("target"),
                    variant=S.one_of(None, "button", "list", "table", "select"))

    def call(i):
        tb, nodes = native_builder(), [native_node(x) for x in i["nodes"]]
        tb.openElements.extend(nodes)
        i["nodes"], i["self"] = list(nodes), tb
        return tb.elementInScope(i["target"], i["variant"])

    @requires
    def no_template_on_the_stack(nodes):
        # known finding C01-template-unsupported: html5lib's scope sets lack (html, template)
        for n in nodes:
            if n.nameTuple == (T.HTML, "template"):
                return False
        return True

    @ensures("C01", "C03")
    @bounded(SCOPE_BOUND)
    def agrees_with_the_standard(nodes, target, variant, result):
        return result == has_in_scope(nodes, (T.HTML, target), variant)


def last_after_marker(items, name):
    i = len(items) - 1
    while i >= 0:
        if items[i] is None:
            return None
        if items[i].name == name:
            return items[i]
        i = i - 1
    return None


@contract(TB + ".elementInActiveFormattingElements")
class ElementInActiveFormattingElements:
    props = ("C01",)

    def inputs(S):
        k = S.choice(5)
        items = [S.one_of(None, lambda i=i: node(S, "f%d" % i, T.HTML)) for i in range(k)]
        tb = builder(S)
        tb.fields["activeFormattingElements"] = S.list(items)
        return dict(self=tb, items=S.list(items), name=S.str("name"))

    def call(i):
        tb, items = native_builder(), [native_node(x) for x in i["items"]]
        tb.activeFormattingElements.extend(items)
        i["items"], i["self"] = list(items), tb
        return tb.elementInActiveFormattingElements(i["name"])

    @ensures("C01")
    @bounded("lists of active formatting elements with at most 4 entries, each a marker or an element of any name")
    def last_matching_entry_after_the_last_marker(items, name, result):
        want = last_after_marker(items, name)
        if want is None:
            return result is False
        return same_object(result, want)


# ------------------------------------------------------------------------------------------- bounded: foster parenting
def fp_stack(S):
    """html + up to DEPTH elements; each may have a parent (some other node object) or none"""
    nodes = stack(S)
    for i, n in enumerate(nodes):
        n.fields["parent"] = S.one_of(None, lambda i=i: node(S, "parent%d" % i))
    return nodes


def foster_place(nodes):
    """the standard's "appropriate place for inserting a node" under foster parenting: with the last table on the stack:
    its parent, just before the table, if it has one, else the element before it on the stack; without a table: the first
    element of the stack (html), at the end"""
    i = len(nodes) - 1
    while i >= 0:
        if nodes[i].name == "table":
            if nodes[i].parent is not None:
                return (nodes[i].parent, nodes[i])
            return (nodes[i - 1], None)
        i = i - 1
    return (nodes[0], None)


@contract(TB + ".getTableMisnestedNodePosition")
class GetTableMisnestedNodePosition:
    props = ("C01", "C04")
    modular = False

    def inputs(S):
        nodes = fp_stack(S)
        tb = builder(S)
        tb.fields["openElements"] = S.list(nodes)
        return dict(self=tb, nodes=S.list(nodes))

    @requires
    def a_table_is_not_the_root(nodes):
        # the bottom of the stack is the html element (file-level precondition)
        return nodes[0].name == "html"

    @ensures("C01", "C04")
    @bounded(SCOPE_BOUND + "; each element with or without a parent node")
    def is_the_foster_parent_place(nodes, result):
        want = foster_place(nodes)
        got_parent, got_before = result
        if not same_object(got_parent, want[0]):
            return False
        if want[1] is None:
            return got_before is None
        return same_object(got_before, want[1])


def recording_node(S, label, log, ns=None, name=None):
    n = node(S, label, ns, name)
    n.methods = {
        "insertText": lambda I, a, k: log.items.append(("insertText", n, a[0], a[1] if len(a) > 1 else k.get("insertBefore"))),
        "appendChild": lambda I, a, k: log.items.append(("appendChild", n, a[0])),
        "insertBefore": lambda I, a, k: log.items.append(("insertBefore", n, a[0], a[1])),
    }
    return n


TABLE_MODE_NAMES = ("table", "tbody", "tfoot", "thead", "tr")


@contract(TB + ".insertText")
class BuilderInsertText:
    props = ("C01", "C04")
    modular = False

    def inputs(S):
        log = S.list([])
        k = S.choice(DEPTH + 1)
        nodes = [recording_node(S, "html", log, T.HTML, "html")] + [recording_node(S, "e%d" % i, log) for i in range(k)]
        for i, n in enumerate(nodes):
            n.fields["parent"] = S.one_of(None, lambda i=i: recording_node(S, "parent%d" % i, log))
        tb = builder(S)
        tb.fields["openElements"] = S.list(nodes)
        tb.fields.pop("insertFromTable", None)
        tb.fields["_insertFromTable"] = S.bool("insertFromTable")
        return dict(self=tb, nodes=S.list(nodes), log=log, data=S.str("data"), parent=None)

    @ensures("C01", "C04")
    @bounded(SCOPE_BOUND + "; each element with or without a parent node")
    def text_goes_to_the_current_node_or_is_foster_parented(self, nodes, log, data):
        # foster parenting applies when it is enabled and the current node is a table, tbody, tfoot, thead or tr element
        if len(log) != 1 or log[0][0] != "insertText" or log[0][2] != data:
            return False
        op = log[0]
        top = nodes[len(nodes) - 1]
        if self._insertFromTable and top.name in TABLE_MODE_NAMES:
            want = foster_place(nodes)
            if not same_object(op[1], want[0]):
                return False
            return op[3] is None if want[1] is None else same_object(op[3], want[1])
        return same_object(op[1], top) and op[3] is None


# ------------------------------------------------------------------------------------------- bounded: reconstruct the AFE
@contract(TB + ".reconstructActiveFormattingElements")
class ReconstructActiveFormattingElements:
    """13.2.4.3 "reconstruct the active formatting elements": the entries after the last marker / last entry that is still on
    the stack of open elements are re-created, in order: for each, an element for the same token is inserted (so it lands on
    the stack) and replaces the entry."""
    props = ("C01",)
    modular = False

    def inputs(S):
        log = S.list([])
        n = S.choice(4)                    # entries in the list of active formatting elements
        open_nodes = [node(S, "html", T.HTML, "html")]
        afe = []
        kinds = []
        for i in range(n):
            kind = S.one_of("marker", "open", "closed")
            kinds.append(kind)
            if kind == "marker":
                afe.append(None)
                continue
            el = node(S, "f%d" % i, T.HTML)
            el.fields["attributes"] = S.dict({"class": S.str("class%d" % i)})
            # cloneNode: a new node with the same name, namespace and attributes
            el.methods = {"cloneNode": lambda I, a, k, el=el: node(S, "clone", el.fields["namespace"], el.fields["name"])}
            if kind == "open":
                open_nodes.append(el)
            afe.append(el)
        for el in afe:
            if el is not None:
                el.methods["cloneNode"] = (lambda el: (lambda I, a, k: _clone(S, el)))(el)
        tb = builder(S)
        tb.fields["openElements"] = S.list(open_nodes)
        tb.fields["activeFormattingElements"] = S.list(afe)

        def insert(I, a, k):
            tok = a[0]
            from pyvc.builtins_ import getitem
            new = node(S, "inserted", getitem(I, tok, "namespace"), getitem(I, tok, "name"))
            new.fields["attributes"] = getitem(I, tok, "data")
            tb.fields["openElements"].items.append(new)
            log.items.append(new)
            return new
        from pyvc.values import NativeFn
        tb.fields["insertElement"] = NativeFn("insertElement", insert)
        return dict(self=tb, before=S.list(list(afe)), kinds=S.list(kinds), opened=S.list(list(open_nodes)), log=log)

    @ensures("C01")
    @bounded("lists of active formatting elements with at most 3 entries, each a marker, an element still on the stack or one no longer on it")
    def recreates_the_tail_in_order(self, before, kinds, opened, log):
        n = len(before)
        # first index to re-create: one past the last marker / still-open entry
        start = 0
        for i in range(n):
            if kinds[i] != "closed":
                start = i + 1
        afe = self.activeFormattingElements
        if len(afe) != n or len(log) != n - start or len(self.openElements) != len(opened) + (n - start):
            return False
        for i in range(start):
            if before[i] is None:
                if afe[i] is not None:
                    return False
            elif not same_object(afe[i], before[i]):
                return False
        for i in range(start, n):
            new = log[i - start]
            if not (same_object(afe[i], new) and same_object(self.openElements[len(opened) + i - start], new)):
                return False
            if not (new.name == before[i].name and new.namespace == before[i].namespace and new.attributes == before[i].attributes):
                return False
        return True


def _clone(S, el):
    c = node(S, "clone", el.fields["namespace"], el.fields["name"])
    c.fields["attributes"] = el.fields["attributes"]
    return c


@contract(TB + ".clearActiveFormattingElements")
class ClearActiveFormattingElements:
    """"clear the list of active formatting elements up to the last marker": pop entries until a marker has been popped"""
    props = ("C01",)
    modular = False

    def inputs(S):
        n = 1 + S.choice(4)
        afe = [S.one_of(None, lambda i=i: node(S, "f%d" % i, T.HTML)) for i in range(n)]
        tb = builder(S)
        tb.fields["activeFormattingElements"] = S.list(afe)
        return dict(self=tb, before=S.list(list(afe)))

    @ensures("C01")
    @bounded("non-empty lists of at most 4 entries, each a marker or an element")
    def pops_through_the_last_marker(self, before):
        last = -1
        for i in range(len(before)):
            if before[i] is None:
                last = i
        keep = last if last >= 0 else 0
        afe = self.activeFormattingElements
        if len(afe) != keep:
            return False
        for i in range(keep):
            if before[i] is None:
                if afe[i] is not None:
                    return False
            elif not same_object(afe[i], before[i]):
                return False
        return True

"""Contracts for html5lib/filters/optionaltags.py (C13)."""
from pyvc.contract import contract, requires, ensures, LoopSpec, clause, implies, iff, same_object
from spec import optional_tags as OT

TOKEN_TYPES = ("Doctype", "Characters", "SpaceCharacters", "StartTag", "EndTag", "EmptyTag", "Comment",
               "Entity", "SerializeError")


def walker_token(S, name):
    """None, or a token as tree walkers produce them: `name` exists exactly for tags/doctype/entity,
    `data` for tags (attribute map), text and comments."""
    def tok():
        z3 = S.z3
        t = S.str_in(name + ".type", TOKEN_TYPES)
        d = S.dict()
        d.entries["type"] = [t, True]
        d.entries["name"] = [S.str(name + ".name"),
                             z3.Or(*[t.z == z3.StringVal(x) for x in ("StartTag", "EndTag", "EmptyTag", "Doctype", "Entity")])]
        return d
    return S.one_of(None, tok)


def native_filter():
    from html5lib.filters.optionaltags import Filter
    return Filter([])


@contract("html5lib.filters.optionaltags.Filter.is_optional_start")
class IsOptionalStart:
    props = ("C13", "C07")

    def inputs(S):
        return dict(self=S.obj("html5lib.filters.optionaltags.Filter"), tagname=S.str("tagname"),
                    previous=walker_token(S, "previous"), next=walker_token(S, "next"))

    @ensures("C13", "C07")
    def only_listed_elements(tagname, result):
        return implies(result, tagname in OT.START_OMISSIBLE)

    @ensures("C13", "C07")
    def only_where_syntax_allows(tagname, previous, next, result):
        return implies(result, OT.may_omit_start(tagname, previous, next))

    def call(i):
        return native_filter().is_optional_start(i["tagname"], i["previous"], i["next"])


@contract("html5lib.filters.optionaltags.Filter.is_optional_end")
class IsOptionalEnd:
    props = ("C13", "C07")

    def inputs(S):
        return dict(self=S.obj("html5lib.filters.optionaltags.Filter"), tagname=S.str("tagname"),
                    next=walker_token(S, "next"))

    @ensures("C13", "C07")
    def only_listed_elements(tagname, result):
        return implies(result, tagname in OT.END_OMISSIBLE)

    @ensures("C13", "C07")
    def only_where_syntax_allows(tagname, next, result):
        return implies(result, OT.may_omit_end(tagname, next))

    def call(i):
        return native_filter().is_optional_end(i["tagname"], i["next"])


# ---- known finding: html5lib (and its fixtures) omit </p> before three elements the syntax rule does not list
def region_p_before_obsolete_closers(tagname, next):
    return tagname == "p" and OT.is_element(next, ("datagrid", "dialog", "dir"))


# ---------------------------------------------------------------------------------------------
def tag_token(S, name):
    """A non-None walker token for the middle of the window; tag tokens carry an attribute map
    (modelled by one optional attribute: only its emptiness is observed here)."""
    z3 = S.z3
    t = S.str_in(name + ".type", TOKEN_TYPES)
    d = S.dict()
    d.entries["type"] = [t, True]
    is_tag = z3.Or(*[t.z == z3.StringVal(x) for x in ("StartTag", "EndTag", "EmptyTag")])
    d.entries["name"] = [S.str(name + ".name"),
                         z3.Or(is_tag, t.z == z3.StringVal("Doctype"), t.z == z3.StringVal("Entity"))]
    attrs = S.dict()
    attrs.entries[(None, "a")] = [S.str(name + ".attr"), S.bool(name + ".has_attr").z]
    data = S.one_of(lambda: attrs, lambda: S.str(name + ".text"))
    d.entries["data"] = [data, z3.Or(t.z == z3.StringVal("StartTag"), t.z == z3.StringVal("EmptyTag"),
                                      t.z == z3.StringVal("Characters"), t.z == z3.StringVal("SpaceCharacters"),
                                      t.z == z3.StringVal("Comment"), t.z == z3.StringVal("SerializeError"))]
    if isinstance(data, type(attrs)):
        S.assume(z3.Or(t.z == z3.StringVal("StartTag"), t.z == z3.StringVal("EmptyTag")))
    else:
        S.assume(z3.Not(z3.Or(t.z == z3.StringVal("StartTag"), t.z == z3.StringVal("EmptyTag"))))
    return d


def iter_element(S, L):
    return (walker_token(S, "previous"), tag_token(S, "token"), walker_token(S, "next"))


def iter_only_drops(yielded, token, pre_element):
    # the token either passes through (the same object, untouched) or is dropped; nothing else is emitted
    return (len(yielded) == 0 or (len(yielded) == 1 and same_object(yielded[0], token))) and token == pre_element[1]


def iter_drops_only_omissible(yielded, token, previous, next):
    return implies(len(yielded) == 0,
                   (token["type"] == "StartTag" and not token["data"] and token["name"] in OT.START_OMISSIBLE
                    and (OT.may_omit_start(token["name"], previous, next)
                         or region_p_before_obsolete_closers(token["name"], next)))
                   or (token["type"] == "EndTag" and token["name"] in OT.END_OMISSIBLE
                       and (OT.may_omit_end(token["name"], next)
                            or region_p_before_obsolete_closers(token["name"], next))))


@contract("html5lib.filters.optionaltags.Filter.__iter__")
class Iter:
    props = ("C13", "C07")

    def inputs(S):
        return dict(self=S.obj("html5lib.filters.optionaltags.Filter"))

    loops = {"For1": LoopSpec(element=iter_element, props=("C13", "C07"),
                              step=[clause("only_drops", iter_only_drops, "C13", "C07"),
                                    clause("drops_only_omissible", iter_drops_only_omissible, "C13", "C07")])}


def slider_havoc(S, L):
    L.previous1 = walker_token(S, "previous1")
    L.previous2 = walker_token(S, "previous2")


def slider_element(S, L):
    return tag_token(S, "token")


def slider_step(yielded, pre, token, previous1, previous2):
    # one window per position, in order: (two back, one back, current) once there is a "one back"
    return (iff(len(yielded) == 1, pre.previous1 is not None) and len(yielded) <= 1
            and (len(yielded) != 1 or (same_object(yielded[0][0], pre.previous2) and same_object(yielded[0][1], pre.previous1)
                                       and same_object(yielded[0][2], token)))
            and same_object(previous1, token) and same_object(previous2, pre.previous1))


@contract("html5lib.filters.optionaltags.Filter.slider")
class Slider:
    props = ("C13", "C07")
    modular = False

    def inputs(S):
        return dict(self=S.obj("html5lib.filters.optionaltags.Filter"))

    loops = {"For1": LoopSpec(havoc=slider_havoc, element=slider_element, props=("C13", "C07"),
                              step=[clause("window", slider_step, "C13", "C07")])}

    @ensures("C13", "C07")
    def last_window(result, final):
        # after the source is exhausted exactly one more window (.., last, None) if anything was seen
        return (iff(len(result) == 1, final.previous1 is not None) and len(result) <= 1
                and (len(result) != 1 or (same_object(result[0][1], final.previous1) and result[0][2] is None
                                          and same_object(result[0][0], final.previous2))))


def _result_bool_or_none(S, env):
    return S.one_of(None, lambda: S.bool("omit"))


IsOptionalStart.result = staticmethod(_result_bool_or_none)
IsOptionalEnd.result = staticmethod(_result_bool_or_none)
IsOptionalStart._contract.result = _result_bool_or_none
IsOptionalEnd._contract.result = _result_bool_or_none

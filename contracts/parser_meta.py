"""Contract for InHeadPhase.startTagMeta (C06, C15): a <meta> start tag changes the encoding exactly when the
standard says so -- only while the encoding is tentative; `charset` wins; otherwise a `content` attribute counts
only together with http-equiv equal to "content-type" ignoring case.  The stream, the tree builder and the
content-attribute parser are abstract objects: changeEncoding records its argument in a ghost list."""
from pyvc.contract import contract, requires, ensures

PHASE = "html5lib.html5parser.InHeadPhase"


def _record(I, args, kwargs):
    stream = I.top_env["stream"]
    stream.fields["ghost_changes"].items.append(args[0])
    return None


@contract(PHASE + ".startTagMeta")
class StartTagMeta:
    props = ("C06", "C15")

    def inputs(S):
        from pyvc.values import NativeFn
        z3 = S.z3
        certainty = S.str_in("certainty", ("tentative", "certain"))
        stream = S.abstract("Stream", {"charEncoding": (S.str("encoding_name"), certainty), "ghost_changes": S.list([])},
                            changeEncoding=_record)
        tokenizer = S.abstract("Tokenizer", {"stream": stream})
        parser = S.abstract("Parser", {"tokenizer": tokenizer})
        tree = S.abstract("Tree", {"openElements": S.anylist("open", tail=("the meta element",))},
                          insertElement=lambda I, a, k: None)
        attrs = S.dict({})
        attrs.entries["charset"] = [S.str("charset"), S.bool("has_charset").z]
        attrs.entries["content"] = [S.str("content"), S.bool("has_content").z]
        attrs.entries["http-equiv"] = [S.str("http_equiv"), S.bool("has_http_equiv").z]
        token = S.dict({"type": 3, "name": "meta", "data": attrs, "selfClosing": S.bool("selfClosing")})
        self = S.obj(PHASE, parser=parser, tree=tree)
        return dict(self=self, token=token, stream=stream, certainty=certainty, parsed=S.one_of(None, lambda: S.bytes("parsed")))

    def globals(S):
        from pyvc.values import NativeFn

        def content_attr_parser(I, a, k):
            o = S.abstract("ContentAttrParser", {}, parse=lambda I2, a2, k2: I2.top_env["parsed"])
            return o
        return {"html5lib._inputstream.EncodingBytes": NativeFn("EncodingBytes", lambda I, a, k: a[0]),
                "html5lib._inputstream.ContentAttrParser": NativeFn("ContentAttrParser", content_attr_parser)}

    @ensures("C06", "C15")
    def encoding_changes_exactly_when_the_standard_says(old, stream, certainty, parsed):
        attrs = old.token["data"]
        calls = stream.ghost_changes
        if certainty != "tentative":
            return len(calls) == 0
        if "charset" in attrs:
            return len(calls) == 1 and calls[0] == attrs["charset"]
        if "content" in attrs and "http-equiv" in attrs and attrs["http-equiv"].lower() == "content-type":
            return len(calls) == 1 and calls[0] == parsed
        return len(calls) == 0

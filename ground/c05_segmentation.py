"""C05 bounded stand-in (thorough tier), on the real code: the token stream and the reported parse errors do not depend
on how the same characters arrive -- as a str, as a text stream returning short reads, with any internal chunk size,
as bytes or as a byte stream (seekable or not) returning short reads.  Bounded native enumeration, never counted."""
import io
import itertools

from . import ground, rec

PIECES = ["a", "<!-", "</", "&#", "\r", "\n", "\r\n", "<b>", "&amp;", "&#13;", "\U0001F600", "\ud83d", "\ude00", "é", "\x00", "\ufdd0", "</b>", "<!--c-->", "x\ry", "=", "€"]


class ShortReads(io.TextIOBase):
    """text stream that returns at most `size` characters per read"""
    def __init__(self, text, size):
        self.text, self.pos, self.size = text, 0, size

    def read(self, n=-1):
        if n is None or n < 0:
            n = len(self.text)
        n = min(n, self.size) if n > 0 else 0
        out = self.text[self.pos:self.pos + n]
        self.pos += len(out)
        return out


class ShortByteReads(object):
    """byte stream without seek/tell that returns at most `size` bytes per read"""
    def __init__(self, data, size):
        self.data, self.pos, self.size = data, 0, size

    def read(self, n=-1):
        if n is None or n < 0:
            n = len(self.data)
        n = min(n, self.size) if n > 0 else 0
        out = self.data[self.pos:self.pos + n]
        self.pos += len(out)
        return out


UNGET_AT_CHUNK_START = [0]


def _observe(source, **kw):
    import html5lib
    import html5lib._inputstream as IS
    from html5lib import treewalkers
    p = html5lib.HTMLParser()
    # note whether unget() ever runs with the cursor at the start of a chunk (site of the known finding C05-unget-position)
    real_unget = IS.HTMLUnicodeInputStream.unget

    def unget(self, char):
        if char is not None and self.chunkOffset == 0:
            UNGET_AT_CHUNK_START[0] += 1
        return real_unget(self, char)
    IS.HTMLUnicodeInputStream.unget = unget
    UNGET_AT_CHUNK_START[0] = 0
    try:
        doc = p.parse(source, **kw)
    finally:
        IS.HTMLUnicodeInputStream.unget = real_unget
    toks = []
    for t in treewalkers.getTreeWalker("etree")(doc):
        if t["type"] in ("Characters", "SpaceCharacters"):
            if toks and toks[-1][0] == "T":
                toks[-1] = ("T", toks[-1][1] + t["data"])
            else:
                toks.append(("T", t["data"]))
        else:
            toks.append((t["type"], t.get("name"), tuple(sorted((t.get("data") or {}).items())) if isinstance(t.get("data"), dict) else t.get("data")))
    return toks, [(pos, code) for pos, code, _ in p.errors]


def _stream_level_error(text):
    """region of the known finding C05-stream-error-positions: the text contains a character the input stream itself
    reports (control characters, noncharacters, lone surrogates): those errors are queued when a chunk is read, so their
    position and their place in the list depend on the chunking"""
    import re
    import html5lib._inputstream as IS
    if IS.invalid_unicode_re.search(text):
        return True
    return re.search("[\ud800-\udfff]", text) is not None


def unget_position_witness():
    """known finding: a character put back when the cursor is at the start of a chunk is counted twice by position()"""
    import html5lib._inputstream as IS
    text = "<!doctype html>a<!-\n=\np"
    saved = IS.HTMLUnicodeInputStream._defaultChunkSize
    a = _observe(text)[1]
    try:
        IS.HTMLUnicodeInputStream._defaultChunkSize = 1
        b = _observe(text)[1]
    finally:
        IS.HTMLUnicodeInputStream._defaultChunkSize = saved
    return a != b and [c for _, c in a] == [c for _, c in b]


def stream_error_witness():
    a = _observe("<b>\ufdd0")[1]
    b = _observe(ShortReads("<b>\ufdd0", 1))[1]
    return a != b and sorted(a) != sorted(b) or a != b


def run_family(max_len=3):
    import warnings
    import html5lib._inputstream as IS
    warnings.simplefilter("ignore")
    bad, n = [], 0
    known = 0
    saved = IS.HTMLUnicodeInputStream._defaultChunkSize
    try:
        for k in range(1, max_len + 1):
            for seq in itertools.product(PIECES, repeat=k):
                text = "".join(seq)
                IS.HTMLUnicodeInputStream._defaultChunkSize = saved
                base = _observe(text)
                variants = []
                for size in (1, 2, 3, 7):
                    variants.append(("short reads of %d" % size, lambda size=size: _observe(ShortReads(text, size))))
                for chunk in (1, 2, 3):
                    def with_chunk(chunk=chunk):
                        IS.HTMLUnicodeInputStream._defaultChunkSize = chunk
                        try:
                            return _observe(text)
                        finally:
                            IS.HTMLUnicodeInputStream._defaultChunkSize = saved
                    variants.append(("chunk size %d" % chunk, with_chunk))
                try:
                    data = text.encode("utf-8")
                except UnicodeEncodeError:
                    data = None           # lone surrogates have no UTF-8 form
                if data is not None:
                    variants.append(("utf-8 bytes", lambda: _observe(data, override_encoding="utf-8")))
                    for size in (1, 2, 3):
                        variants.append(("byte stream, reads of %d" % size,
                                         lambda size=size: _observe(ShortByteReads(data, size), override_encoding="utf-8")))
                        variants.append(("BytesIO wrapped short reads %d" % size,
                                         lambda size=size: _observe(io.BufferedReader(io.BytesIO(data), buffer_size=max(size, 1)), override_encoding="utf-8")))
                for label, fn in variants:
                    n += 1
                    try:
                        got = fn()
                    except Exception as e:
                        got = "%s: %s" % (type(e).__name__, e)
                    if got != base and isinstance(got, tuple) and got[0] == base[0] and _stream_level_error(text):
                        known += 1          # same tree, error list differs, text has a stream-level error
                        continue
                    if got != base and isinstance(got, tuple) and got[0] == base[0] and UNGET_AT_CHUNK_START[0] \
                            and [c for _, c in got[1]] == [c for _, c in base[1]]:
                        known += 1          # same tree, same error codes; positions differ and unget() ran at a chunk start
                        continue
                    if got != base:
                        bad.append([text.encode("unicode_escape").decode(), label, repr(got)[:160], repr(base)[:160]])
                if len(bad) > 30:
                    return bad, n, known
    finally:
        IS.HTMLUnicodeInputStream._defaultChunkSize = saved
    return bad, n, known


@ground("C05", tier="thorough")
def same_result_however_the_characters_arrive():
    bad, n, known = run_family()
    r = rec("C05/bounded/same-tree-and-errors-for-every-delivery", not bad, n,
            "for every string of at most 3 pieces out of %d (CR, LF, CR LF, surrogate halves, astral, multi-byte, NUL, markup): the "
            "tree and the (position, code) list of parse errors are the same for the str, for text streams with reads of 1/2/3/7 "
            "characters, for internal chunk sizes 1/2/3, for UTF-8 bytes and for unseekable byte streams with reads of 1/2/3 bytes "
            "(known-finding regions: %d cases where only the position/order of a stream-level invalid-codepoint error differs, or only error positions differ and unget() ran at the start of a chunk)"
            % (len(PIECES), known), witness=bad[:4] or None, exhaustive=False)
    r["bounded"] = "%d (input, delivery) cases" % n
    return r

"""C20 ground obligations: exhaustive over the Basic Multilingual Plane (65 536 code points, both
positions), against CPython's expat as the independent judge of what an XML name is."""
from . import ground, rec

PUBID = set(" \r\n" + "abcdefghijklmnopqrstuvwxyzABCDEFGHIJKLMNOPQRSTUVWXYZ0123456789" + "-'()+,./:=?;!*#@$_%")


def _expat_accepts(doc):
    """expat parses `doc` = '<NAME/>' as one element whose name is exactly NAME"""
    import xml.parsers.expat as expat
    p = expat.ParserCreate()
    seen = []
    p.StartElementHandler = lambda name, attrs: seen.append((name, attrs))
    try:
        p.Parse(doc, True)
    except expat.ExpatError:
        return False
    return len(seen) == 1 and seen[0][0] == doc[1:-2] and not seen[0][1]


def _bmp():
    for cp in range(0x10000):
        if 0xD800 <= cp <= 0xDFFF:
            continue
        yield chr(cp)


@ground("C20")
def regex_classes_equal_xml_name_classes():
    from html5lib import _ihatexml as X
    bad = []
    n = 0
    for c in _bmp():
        n += 2
        first_legal = _expat_accepts("<%s/>" % c) and c != ":"
        rest_legal = _expat_accepts("<a%sb/>" % c) and c != ":"
        if (X.nonXmlNameFirstBMPRegexp.match(c) is None) != first_legal:
            bad.append(["first", ord(c)])
        if (X.nonXmlNameBMPRegexp.match(c) is None) != rest_legal:
            bad.append(["rest", ord(c)])
    return rec("C20/classes/regexps-equal-xml-name-classes", not bad, n,
               "nonXmlNameFirstBMPRegexp / nonXmlNameBMPRegexp reject exactly the BMP characters an XML parser (expat) "
               "rejects as first / later name character, plus ':' (names must be colon-free)", witness=bad[:5] or None)


@ground("C20")
def coerced_single_characters_are_legal_and_reversible():
    from html5lib import _ihatexml as X
    bad = []
    n = 0
    shared = X.InfosetFilter()      # one filter for the whole sweep: its cache must never change an answer
    for c in _bmp():
        for name in (c + "b", "a" + c + "b", "a" + c):
            n += 1
            f = X.InfosetFilter()
            out = f.toXmlName(name)
            if shared.toXmlName(name) != out or shared.fromXmlName(out) != name:
                bad.append([ord(c), name.encode("unicode_escape").decode(), "answer depends on earlier calls"])
            legal = _expat_accepts("<%s/>" % out) and ":" not in out
            was_legal = _expat_accepts("<%s/>" % name) and ":" not in name
            back = f.fromXmlName(out)
            if not legal or (was_legal and out != name) or back != name:
                bad.append([ord(c), name.encode("unicode_escape").decode(), out])
    return rec("C20/names/every-bmp-character-in-every-position", not bad, n,
               "for every BMP character in first, middle and last position: toXmlName gives a name expat accepts, leaves "
               "legal colon-free names unchanged, and fromXmlName gives the original back", witness=bad[:5] or None)


@ground("C20")
def escape_roundtrip():
    from html5lib import _ihatexml as X
    f = X.InfosetFilter()
    bad = []
    n = 0
    import re
    for c in _bmp():
        n += 1
        e = f.escapeChar(c)
        if not re.fullmatch("U[0-9A-F]{5}", e) or f.unescapeChar(e) != c or f.getReplacementCharacter(c) != e:
            bad.append(ord(c))
    return rec("C20/escape/escapeChar-unescapeChar-roundtrip", not bad, n,
               "escapeChar(c) is 'U' + five upper-case hex digits, unescapeChar inverts it, and the cache returns the same string",
               witness=bad[:5] or None)


@ground("C20")
def pubid_class():
    from html5lib import _ihatexml as X
    bad = []
    n = 0
    for cp in range(0x110000):
        if 0xD800 <= cp <= 0xDFFF:
            continue
        c = chr(cp)
        n += 1
        if (X.nonPubidCharRegexp.match(c) is None) != (c in PUBID):
            bad.append(cp)
    return rec("C20/pubid/regexp-equals-PubidChar", not bad, n,
               "nonPubidCharRegexp rejects exactly the characters outside the XML PubidChar production", witness=bad[:5] or None)

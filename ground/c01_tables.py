"""C01/C03 ground obligations: html5lib's tree-construction tables against the standard's (spec/treeconstruction.py),
and the dispatch structure of the insertion-mode classes."""
from . import ground, rec


def _diff(std, got):
    return sorted(std - got), sorted(got - std)


def _names(pairs):
    return {p[1] if isinstance(p, tuple) else p for p in pairs}


@ground("C01")
def scope_tables_match_the_standard():
    from spec import treeconstruction as T
    from html5lib.treebuilders import base
    from html5lib import constants as C
    bad = []
    known = []
    for label, std, got in (("scope", T.SCOPE, base.listElementsMap[None][0]),
                            ("list item scope", T.LIST_ITEM_SCOPE, base.listElementsMap["list"][0]),
                            ("button scope", T.BUTTON_SCOPE, base.listElementsMap["button"][0]),
                            ("table scope", T.TABLE_SCOPE, base.listElementsMap["table"][0]),
                            ("select scope exceptions", T.SELECT_SCOPE_EXCEPT, base.listElementsMap["select"][0]),
                            ("formatting", T.FORMATTING, C.formattingElements)):
        missing, extra = _diff(std, got)
        for m in missing:
            (known if m[1] in T.UNSUPPORTED else bad).append([label, "missing", list(m)])
        for e in extra:
            bad.append([label, "extra", list(e)])
    inv = {k: v[1] for k, v in base.listElementsMap.items()}
    if inv != {None: False, "button": False, "list": False, "table": False, "select": True}:
        bad.append(["invert flags", repr(inv)])
    if tuple(C.headingElements) != T.HEADINGS:
        bad.append(["headings", list(C.headingElements)])
    return rec("C01/tables/scope-and-formatting-sets", not bad, 6,
               "the five scope boundary sets (with their invert flags), the formatting elements and the headings equal the "
               "standard's, except for elements html5lib does not implement (known finding: %s)" % sorted({k[2][1] for k in known}),
               witness=bad[:5] or None)


# special-category differences that exist on the unchanged tree (known finding C01-special-category-lag)
SPECIAL_KNOWN_MISSING = frozenset(["annotation-xml", "mi", "mn", "mo", "ms", "mtext", "desc", "title", "figcaption", "hgroup",
                                   "keygen", "main", "source", "summary", "template", "track"])
SPECIAL_KNOWN_EXTRA = frozenset(["command", "image", "isindex"])


@ground("C01")
def special_category_matches_the_standard():
    from spec import treeconstruction as T
    from html5lib import constants as C
    missing, extra = _diff(T.SPECIAL, C.specialElements)
    bad = [["missing", list(m)] for m in missing if not (m[1] in SPECIAL_KNOWN_MISSING and (m[0] != T.HTML or True))] + \
          [["extra", list(e)] for e in extra if e[1] not in SPECIAL_KNOWN_EXTRA]
    # the HTML title element is special in both; the missing 'title'/'desc' are the SVG ones
    bad += [["missing", list(m)] for m in missing if m == (T.HTML, "title")]
    return rec("C01/tables/special-category", not bad, len(T.SPECIAL),
               "constants.specialElements equals the standard's special category outside the known-finding region "
               "(missing: %d entries, extra: %d entries listed in known_findings.json)" % (len(missing), len(extra)),
               witness=bad[:5] or None)


def special_category_witness():
    """known finding: 'main' is not in the special category, so the adoption agency finds no furthest block:
    '<b><main>x</b>y' keeps main inside b (the standard gives <b></b><main><b>x</b>y</main>)"""
    import html5lib
    doc = html5lib.parse("<b><main>x</b>y", namespaceHTMLElements=False)
    body = doc.find("body")
    first = list(body)[0]
    return first.tag == "b" and len(first) == 1 and first[0].tag == "main"


def template_witness():
    """known finding: the template element is not implemented: '<table><template><td>x' foster-parents it"""
    import html5lib
    doc = html5lib.parse("<table><template><td>x</td></template></table>", namespaceHTMLElements=False)
    body = doc.find("body")
    return [c.tag for c in body][:1] == ["template"]


def ruby_witness():
    """known finding: rb/rtc are not in the implied-end-tag list: '<ruby><rb>a<rt>b' nests rt inside rb"""
    import html5lib
    doc = html5lib.parse("<ruby><rb>a<rt>b", namespaceHTMLElements=False)
    ruby = doc.find("body").find("ruby")
    return [c.tag for c in ruby] == ["rb"] and [c.tag for c in ruby[0]] == ["rt"]


@ground("C03")
@ground("C01")
def every_phase_handles_every_token_kind():
    """dispatch is total: each of the 23 insertion-mode classes has a method for every token kind mainLoop dispatches,
    and every name in its start/end tag dispatch tables is a method of the class"""
    from html5lib import html5parser as P
    need = ["processCharacters", "processSpaceCharacters", "processStartTag", "processEndTag", "processComment",
            "processDoctype", "processEOF"]
    bad = []
    n = 0
    parser = P.HTMLParser()
    for name, cls in P._phases.items():
        inst = cls(parser, parser.tree)
        for m in need:
            n += 1
            if not callable(getattr(inst, m, None)):
                bad.append([name, m])
        for tab in ("startTagHandler", "endTagHandler"):
            h = cls.__dict__.get(tab)            # the raw MethodDispatcher (class access would bind it to None)
            if h is None:
                continue
            for k, v in dict.items(h):
                n += 1
                if not callable(v):
                    bad.append([name, tab, k])
            if not callable(h.default):
                bad.append([name, tab, "no default"])
    ok = not bad and len(P._phases) == 23
    return rec("C03/dispatch/every-phase-handles-every-token-kind", ok, n,
               "each of the 23 insertion-mode classes defines a handler for all seven token kinds; every entry of its "
               "start/end tag tables is callable and the tables have a default", witness=bad[:5] or [len(P._phases)] if not ok else None)


PRE_BODY_PHASES = ["InitialPhase", "BeforeHtmlPhase", "BeforeHeadPhase", "InHeadPhase", "InHeadNoscriptPhase", "AfterHeadPhase"]


@ground("C03")
def eof_before_the_body_is_always_reprocessed():
    """skeleton invariant, EOF part: in the insertion modes that precede the body element, processEOF hands the EOF on
    (returns True on every path), so that mainLoop's reprocessing chain reaches a mode in which html, head and body
    exist.  Decided on the AST: every path through the method ends in `return True`."""
    import ast
    from . import parse_repo
    tree, _ = parse_repo("html5lib/html5parser.py")
    classes = {n.name: n for n in ast.walk(tree) if isinstance(n, ast.ClassDef)}

    def always_true(stmts):
        """every path through stmts returns the constant True"""
        for st in stmts:
            if isinstance(st, ast.Return):
                return isinstance(st.value, ast.Constant) and st.value.value is True
            if isinstance(st, ast.If):
                if always_true(st.body) and st.orelse and always_true(st.orelse):
                    return True
                if any(isinstance(n, ast.Return) for b in (st.body, st.orelse) for s in b for n in ast.walk(s)):
                    return False            # a return on some path that is not `return True`, or a partial one
            if isinstance(st, (ast.Raise,)):
                return False
            if isinstance(st, (ast.For, ast.While, ast.Try, ast.With)):
                if any(isinstance(n, ast.Return) for n in ast.walk(st)):
                    return False
        return False
    bad = []
    for name in PRE_BODY_PHASES:
        c = classes.get(name)
        fn = None if c is None else next((f for f in c.body if isinstance(f, ast.FunctionDef) and f.name == "processEOF"), None)
        if fn is None or not always_true(fn.body):
            bad.append(name)
    return rec("C03/skeleton/eof-before-the-body-is-reprocessed", not bad, len(PRE_BODY_PHASES),
               "processEOF of the six insertion modes that precede the body returns True on every path (the EOF is reprocessed "
               "until head and body have been implied)", witness=bad or None)


def textarea_witness():
    """known finding: <textarea> content is processed by the in-body rules instead of the text insertion mode, so the
    active formatting elements are reconstructed inside it: '<p><b></p><textarea>x</textarea>' gives <textarea><b>x</b>"""
    import html5lib
    doc = html5lib.parse("<p><b></p><textarea>x</textarea>", namespaceHTMLElements=False)
    ta = doc.find(".//textarea")
    return ta is not None and len(ta) == 1 and ta[0].tag == "b"


def isindex_witness():
    """known finding: <isindex> is still expanded into form/hr/label/input (removed from the standard in 2016, long
    before the 1.1 release): the standard now treats it as any other unknown element"""
    import html5lib
    doc = html5lib.parse("<isindex>", namespaceHTMLElements=False)
    return doc.find(".//isindex") is None and doc.find(".//form") is not None


BREAKOUT = frozenset(["b", "big", "blockquote", "body", "br", "center", "code", "dd", "div", "dl", "dt", "em", "embed", "h1", "h2", "h3",
                      "h4", "h5", "h6", "head", "hr", "i", "img", "li", "listing", "menu", "meta", "nobr", "ol", "p", "pre", "ruby", "s",
                      "small", "span", "strong", "strike", "sub", "sup", "table", "tt", "u", "ul", "var"])


@ground("C01")
def foreign_content_breakout_elements():
    """the start tags that leave foreign content (13.2.6.5, "b", "big", ..., "var"; font only with color/face/size)"""
    from html5lib.html5parser import _phases
    got = frozenset(_phases["inForeignContent"].breakoutElements)
    return rec("C01/tables/foreign-content-breakout-elements", got == BREAKOUT, len(BREAKOUT),
               "InForeignContentPhase.breakoutElements equals the standard's list of start tags that pop back to HTML content",
               witness=None if got == BREAKOUT else [sorted(got - BREAKOUT), sorted(BREAKOUT - got)])

"""C10 bounded stand-in (thorough tier): parse, sanitize, serialize, parse again on the real code over a family of
mutation-XSS shaped inputs; the re-parsed tree must satisfy the sanitizer's allow-lists.  Bounded native enumeration,
reported under bounded_standins, never counted as proved."""
import itertools

from . import ground, rec

PAYLOADS = ["<img src=x onerror=alert(1)>", "<script>alert(1)</script>", "<a href=javascript:alert(1)>x</a>",
            "<iframe src=javascript:alert(1)></iframe>", "<svg onload=alert(1)>", "<style>@import 'x'</style>",
            "<a href='jav&#x09;ascript:alert(1)'>x</a>", "<a href=' javascript:alert(1)'>x</a>", "<form action=javascript:alert(1)><input type=submit>",
            "<object data=x></object>", "<base href=//evil/>", "<meta http-equiv=refresh content='0;url=javascript:alert(1)'>",
            "<a href=data:text/html;base64,PHNjcmlwdD4>x</a>", "<p style='background:url(javascript:alert(1))'>x", "<!--<img src=x onerror=alert(1)>-->",
            "<![CDATA[<img src=x onerror=alert(1)>]]>", "<a title='&lt;img src=x onerror=alert(1)&gt;'>x</a>"]
ENC = [lambda p: p,
       lambda p: p.replace("<", "&lt;").replace(">", "&gt;"),
       lambda p: "</%s>" + p]
CONTEXTS = ["%s", "<div>%s</div>", "<noscript>%s</noscript>", "<style>%s</style>", "<script>%s</script>", "<textarea>%s</textarea>",
            "<title>%s</title>", "<xmp>%s</xmp>", "<iframe>%s</iframe>", "<noembed>%s</noembed>", "<noframes>%s</noframes>", "<plaintext>%s",
            "<svg>%s</svg>", "<svg><style>%s</style></svg>", "<svg><title>%s</title></svg>", "<svg><desc>%s</desc></svg>",
            "<svg><foreignObject>%s</foreignObject></svg>", "<math>%s</math>", "<math><mtext>%s</mtext></math>", "<math><mi><style>%s</style></mi></math>",
            "<math><annotation-xml encoding='text/html'>%s</annotation-xml></math>", "<table>%s</table>", "<table><tr><td>%s</table>",
            "<select>%s</select>", "<select><option>%s</select>", "<template>%s</template>", "<p title='%s'>x</p>", "<a href='%s'>x</a>",
            "<img alt='%s'>", "<!--%s-->", "<svg><a xlink:href='%s'>x</a></svg>", "<math><mtext><table><mglyph><style>%s"]


def _violations(tree, kind):
    from html5lib import treewalkers
    from html5lib.filters import sanitizer
    from html5lib.constants import namespaces
    import re
    bad = []
    implied = {(namespaces["html"], n) for n in ("html", "head", "body")}
    for t in treewalkers.getTreeWalker(kind)(tree):
        if t["type"] == "Comment":
            bad.append(["comment", t["data"][:60]])
        if t["type"] in ("StartTag", "EmptyTag"):
            key = (t["namespace"], t["name"])
            if key not in sanitizer.allowed_elements and key not in implied:
                bad.append(["element", list(key)])
            for (ns, name), v in t["data"].items():
                if (ns, name) not in sanitizer.allowed_attributes:
                    bad.append(["attribute", t["name"], [ns, name]])
                if (ns, name) in sanitizer.attr_val_is_uri:
                    scheme = re.sub(r"[`\x00-\x20\x7f-\xa0\s]+", "", v).lower().split(":")[0] if ":" in v else None
                    if scheme is not None and re.match(r"^[a-z][-+.a-z0-9]*$", scheme) and scheme not in sanitizer.allowed_protocols:
                        bad.append(["uri", t["name"], name, v[:60]])
    return bad


def _namespace_confusion(src, violations):
    """region of the known finding C10-integration-point-children: a disallowed HTML integration point (svg foreignObject,
    MathML annotation-xml) is turned into text but its allowed children (HTML, or a nested svg/math root) stay tags; parsed again they are children of
    <svg>/<math> and come back as SVG/MathML elements of the same local name"""
    from html5lib.filters import sanitizer
    from html5lib.constants import namespaces
    if "foreignObject" not in src and "annotation-xml" not in src:
        return False
    for v in violations:
        if v[0] != "element":
            return False
        ns, name = v[1]
        if ns not in (namespaces["svg"], namespaces["mathml"]) or not any(e[1] == name for e in sanitizer.allowed_elements):
            return False
    return True


def integration_point_witness():
    import html5lib
    import warnings
    warnings.simplefilter("ignore")
    src = "<svg><foreignObject><form><input type=submit></form></foreignObject></svg>"
    out = html5lib.serialize(html5lib.parseFragment(src), sanitize=True, omit_optional_tags=False)
    v = _violations(html5lib.parseFragment(out), "etree")
    return bool(v) and _namespace_confusion(src, v)


def run_family():
    import html5lib
    import warnings
    warnings.simplefilter("ignore")
    bad, n = [], 0
    known = 0
    for ctx, payload, enc in itertools.product(CONTEXTS, PAYLOADS, ENC):
        p = enc(payload)
        if "%s" in p:
            inner = ctx.split("%s")[0].rsplit("<", 1)[-1].split(">")[0].split(" ")[0] or "div"
            p = p % inner
        src = ctx % p if not ctx.startswith("<p title") and "='%s'" not in ctx else ctx % p.replace("'", "&#39;")
        for fragment in (False, True):
            n += 1
            try:
                doc = (html5lib.parseFragment if fragment else html5lib.parse)(src)
                out = html5lib.serialize(doc, sanitize=True, omit_optional_tags=False)
            except Exception as e:
                bad.append([src, "first pass raised %s: %s" % (type(e).__name__, e)])
                continue
            for refrag, scripting in ((False, False), (True, False), (False, True), (True, True)):
                p2 = html5lib.HTMLParser(tree=html5lib.getTreeBuilder("etree"))
                again = (p2.parseFragment if refrag else p2.parse)(out, scripting=scripting)
                v = _violations(again, "etree")
                if v and _namespace_confusion(src, v):
                    known += 1
                    break
                if v:
                    bad.append([src, out, "fragment" if refrag else "document", scripting, v[:3]])
                    break
        if len(bad) > 40:
            break
    return bad, n, known


@ground("C10", tier="thorough")
def reparse_of_sanitized_output_over_an_enumerated_family():
    bad, n, known = run_family()
    r = rec("C10/bounded/sanitized-output-stays-clean-when-parsed-again", not bad, n,
            "for %d payloads x %d encodings x %d contexts, as document and as fragment: the markup produced by parse, sanitize, "
            "serialize, parsed again (document/fragment, scripting off/on), contains only allowed elements, attributes and URI schemes "
            "and no comment (outside the known-finding region: %d cases of allowed HTML children of a disallowed integration point)"
            % (len(PAYLOADS), len(ENC), len(CONTEXTS), known), witness=bad[:3] or None, exhaustive=False)
    r["bounded"] = "%d inputs x 4 re-parse modes" % n
    return r

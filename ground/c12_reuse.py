"""C12 bounded stand-in (thorough tier), on the real code: a reused HTMLParser / HTMLSerializer gives what a fresh one
gives, after every one- and two-call history out of a family of inputs that includes aborted calls (strict-mode
ParseError, an input source that raises).  Bounded native enumeration, never counted as proved."""
import itertools

from . import ground, rec

INPUTS = ["<p>x", "<table>leak\x00", "<!DOCTYPE html><table>leak\x00", "<!DOCTYPE html><table> </table>", "<!DOCTYPE html><pre>", "<!DOCTYPE html><table>x</p>", "<table>a<b>c", "<pre>\n", "<textarea>\n", "<select><option>a", "<svg><desc><b>x", "<title>t",
          "<frameset>", "<!DOCTYPE html><html><head><script>x", "<table><tr><td><select>", "<math><mi>", "<template>x", "</p>",
          "<a><a>", "<b><p></b>x", "<plaintext>rest", "<noscript><p>", "<!--c", "<body><table> </table>", "<body>\nfoo", "<tr>x",
          "<form><form>", "<html a=b><html c=d>", "<meta charset=utf-8>é"]


class Boom(Exception):
    pass


class FailingSource(object):
    """text source that raises on its second read"""
    def __init__(self, text):
        self.text, self.n = text, 0

    def read(self, size=-1):
        self.n += 1
        if self.n > 1:
            raise Boom()
        return self.text[:3]


def _show(doc, builder):
    import html5lib
    return html5lib.serialize(doc, tree=builder, omit_optional_tags=False, quote_attr_values="always")


def _call(parser, kind, text, builder="etree"):
    """one call of the history; returns its observable outcome"""
    import html5lib
    from html5lib.html5parser import ParseError
    try:
        if kind == "parse":
            parser.strict = False
            return ("tree", _show(parser.parse(text), builder), [(p, c) for p, c, _ in parser.errors])
        if kind == "fragment":
            parser.strict = False
            return ("tree", _show(parser.parseFragment(text, container="td"), builder), [(p, c) for p, c, _ in parser.errors])
        if kind == "strict":
            parser.strict = True
            try:
                return ("tree", _show(parser.parse(text), builder), [])
            finally:
                parser.strict = False
        if kind == "failing-source":
            parser.strict = False
            return ("tree", _show(parser.parse(FailingSource(text)), builder), [])
    except ParseError as e:
        return ("ParseError", str(e))
    except Boom:
        return ("Boom",)


def run_family():
    import warnings
    import html5lib
    warnings.simplefilter("ignore")
    bad, n = [], 0
    kinds = ["parse", "fragment", "strict", "failing-source"]
    for builder in ("etree", "dom"):
        fresh = {}
        for k2, t2 in itertools.product(("parse", "fragment"), INPUTS):
            fresh[(k2, t2)] = _call(html5lib.HTMLParser(tree=html5lib.getTreeBuilder(builder)), k2, t2, builder)
        for (k1, t1), (k2, t2) in itertools.product(itertools.product(kinds, INPUTS), itertools.product(("parse", "fragment"), INPUTS)):
            n += 1
            p = html5lib.HTMLParser(tree=html5lib.getTreeBuilder(builder))
            _call(p, k1, t1, builder)
            got = _call(p, k2, t2, builder)
            if got != fresh[(k2, t2)]:
                bad.append([builder, [k1, t1], [k2, t2], repr(got)[:160], repr(fresh[(k2, t2)])[:160]])
                if len(bad) > 20:
                    return bad, n
    # the serializer: errors and raw-text state of one call must not reach the next
    from html5lib.serializer import HTMLSerializer
    from html5lib import treewalkers
    w = treewalkers.getTreeWalker("etree")
    docs = [html5lib.parse(t) for t in ["<style>a", "<p>x", "<script>1</script><p>&amp;", "<!--a--b-->", "<pre>\nx"]]
    for d1, d2 in itertools.product(docs, repeat=2):
        n += 1
        s = HTMLSerializer()
        list(itertools.islice(s.serialize(w(d1)), 3))          # abandoned half-way
        a = (s.render(w(d2)), list(s.errors))
        f = HTMLSerializer()
        b = (f.render(w(d2)), list(f.errors))
        if a != b:
            bad.append(["serializer", repr(a)[:160], repr(b)[:160]])
    return bad, n


@ground("C12", tier="thorough")
def reuse_equals_fresh_on_an_enumerated_family_of_histories():
    bad, n = run_family()
    r = rec("C12/bounded/reused-object-equals-fresh-object", not bad, n,
            "after every first call out of {parse, parseFragment, strict parse (may abort with ParseError), parse of a source that "
            "raises} x %d inputs, a second parse/parseFragment of each of the %d inputs on the same HTMLParser gives the tree and "
            "error list of a fresh parser (etree and dom builders); a serializer abandoned half-way renders the next tree like a "
            "fresh one" % (len(INPUTS), len(INPUTS)), witness=bad[:4] or None, exhaustive=False)
    r["bounded"] = "%d two-call histories" % n
    return r

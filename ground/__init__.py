"""Ground obligations: finite domains evaluated exhaustively on the real imported modules.
Runs under /venv/bin/python with PYTHONPATH=/verif:$H5V_REPO (never under the engine's interpreter)."""
import ast
import os

REGISTRY = []
REPO = os.environ.get("H5V_REPO", "/repo")


def ground(prop, tier="quick"):
    def deco(f):
        REGISTRY.append((prop, tier, f))
        return f
    return deco


def rec(oid, ok, size, what, witness=None, exhaustive=True):
    return {"id": oid, "ok": bool(ok), "size": size, "what": what, "witness": witness, "exhaustive": exhaustive}


def parse_repo(relpath):
    p = os.path.join(REPO, relpath)
    with open(p, encoding="utf-8") as fh:
        src = fh.read()
    return ast.parse(src, filename=p), src


def enclosing_functions(tree):
    """map id(node) -> qualified name of the innermost enclosing def/class chain"""
    out = {}

    def walk(node, prefix):
        for ch in ast.iter_child_nodes(node):
            if isinstance(ch, (ast.FunctionDef, ast.ClassDef)):
                q = (prefix + "." if prefix else "") + ch.name
                for sub in ast.walk(ch):
                    out.setdefault(id(sub), None)
                walk(ch, q)
                for sub in ast.walk(ch):
                    if out.get(id(sub)) is None or len(out[id(sub)]) < len(q):
                        out[id(sub)] = q
            else:
                walk(ch, prefix)
    walk(tree, "")
    return out

"""C07 / C10 bounded stand-in (thorough tier): serialize-then-parse on the real code over an enumerated family of
trees and the cross product of serializer options.  This is a bounded native enumeration, reported under
bounded_standins and never counted as proved: the composition of serializer and parser is outside what the
contracts reach (DESIGN 0.2)."""
import itertools

from . import ground, rec

TEXTS = ["x", "<", ">", "&", "&amp;", "&lt;", "a<b", "</p>", "\n", "\nx", "\n\nx", " ", "  x  ", '"', "'", " ", "\t",
         "]]>", "-->", "<!--", "&#38;", "&am", "&amp", "x&y;", "<b>", "</", "é", "\U0001F600"]
ATTR_VALUES = ["", "a", "a b", 'a"b', "a'b", "a>b", "a<b", "a&b", "a=b", "a`b", "a/", "/", "é", "\n", "&amp;", "\"'", "&quot", "\t"]
WRAPPERS = ["<p>%s</p>", "<div>%s</div>", "<pre>%s</pre>", "<textarea>%s</textarea>", "<title>%s</title>", "<b><i>%s</i></b>",
            "<ul><li>%s<li>%s</ul>", "<table><tr><td>%s</table>", "<select><option>%s</select>", "<svg><desc>%s</desc></svg>",
            "<math><mtext>%s</mtext></math>", "<a href=x>%s</a>", "<h1>%s</h1><p>%s", "<listing>%s</listing>", "<dl><dt>%s<dd>%s</dl>",
            "<button>%s</button>", "<svg><title>%s</title></svg>", "<p>%s<table><tr><td>%s</table>", "<!--%s-->"]
ATTR_TEMPLATES = ['<p title="%s">x</p>', '<input value="%s">', '<input disabled value="%s">', '<a href="%s" title="%s">x</a>',
                  '<img alt="%s">', '<br class="%s">', '<option selected value="%s">x']


def _dump(tree, kind):
    from html5lib import treewalkers
    out, txt = [], []
    for t in treewalkers.getTreeWalker(kind)(tree):
        ty = t["type"]
        if ty in ("Characters", "SpaceCharacters"):
            txt.append(t["data"])
            continue
        if txt:
            out.append(("T", "".join(txt)))
            txt = []
        if ty in ("StartTag", "EmptyTag"):
            out.append(("S", t["namespace"], t["name"], tuple(sorted(t["data"].items()))))
            if ty == "EmptyTag":
                out.append(("E",))
        elif ty == "EndTag":
            out.append(("E",))
        elif ty == "Comment":
            out.append(("C", t["data"]))
        elif ty == "Doctype":
            out.append(("D", t["name"]))
    if txt:
        out.append(("T", "".join(txt)))
    return out


def _esc(s):
    return s.replace("&", "&amp;").replace("<", "&lt;").replace(">", "&gt;").replace('"', "&quot;")


BLOCKS = ["address", "article", "aside", "blockquote", "details", "div", "dl", "fieldset", "figcaption", "figure", "footer",
          "form", "h1", "h6", "header", "hgroup", "hr", "main", "menu", "nav", "ol", "p", "pre", "section", "table", "ul",
          "span", "a", "b", "custom-el", "img", "br", "button", "select", "noscript", "svg", "math", "audio", "video", "del", "ins", "map"]
GAPS = ["", " ", "x", "<!--c-->", " <!--c-->"]


def _optional_tag_sources():
    # </p> (and a few others) before each kind of next sibling, with and without something in between
    for nxt in BLOCKS:
        for gap in GAPS:
            yield "<div><p>a</p>%s<%s>b</%s></div>" % (gap, nxt, nxt) if nxt not in ("img", "br", "hr") else "<div><p>a</p>%s<%s></div>" % (gap, nxt)
    # parents whose content model allows a p child (the property quantifies over conforming trees: no <span><p>)
    for parent in ["a", "audio", "del", "ins", "map", "noscript", "video", "div", "li", "td", "object", "section", "blockquote"]:
        for gap in GAPS[:3]:
            yield "<%s><p>a</p>%s</%s>x" % (parent, gap, parent)
    lists = ["<ul><li>a</li>%s<li>b</li>%s</ul>", "<dl><dt>a</dt>%s<dd>b</dd>%s<dt>c</dt>%s</dl>", "<select><option>a</option>%s<optgroup><option>b</option>%s</optgroup>%s</select>",
             "<ruby>a<rt>b</rt>%s<rp>c</rp>%s</ruby>", "<table><caption>c</caption>%s<colgroup><col></colgroup>%s<thead><tr><th>h</th>%s</tr></thead>%s<tbody><tr><td>a</td>%s<td>b</td></tr>%s</tbody>%s<tfoot><tr><td>f</td></tr></tfoot>%s</table>",
             "<table>%s<tr><td>a</td></tr>%s</table>", "<table><colgroup>%s<col></colgroup><tr><td>x</td></tr></table>"]
    for l in lists:
        n = l.count("%s")
        for gap in GAPS:
            yield l % ((gap,) * n)
    docs = ["<!DOCTYPE html><html>%s<head>%s<title>t</title></head>%s<body>%s<p>x</p></body>%s</html>%s",
            "<html><head></head><body>%sx</body></html>", "<html><head>%s</head><body></body></html>",
            "<html><head><meta charset=utf-8></head><body><meta name=a><link rel=b><script>1</script><style>s</style><template>t</template></body></html>"]
    for d in docs:
        n = d.count("%s")
        for gap in GAPS:
            yield d % ((gap,) * n)


def _known(src, a, b):
    """regions of the known findings that this enumeration runs into"""
    if "\r" in src:
        return "CR"
    return None


def _roundtrip(src, kind, opts):
    import html5lib
    from html5lib.serializer import HTMLSerializer
    from html5lib import treewalkers
    doc = html5lib.parse(src, treebuilder=kind)
    out = HTMLSerializer(**opts).render(treewalkers.getTreeWalker(kind)(doc))
    again = html5lib.parse(out, treebuilder=kind)
    return _dump(doc, kind), _dump(again, kind), out


OPTION_SPACE = {
    "quote_attr_values": ["legacy", "spec", "always"],
    "quote_char": ['"', "'"],
    "use_best_quote_char": [True, False],
    "minimize_boolean_attributes": [True, False],
    "use_trailing_solidus": [False, True],
    "space_before_trailing_solidus": [True, False],
    "escape_lt_in_attrs": [False, True],
    "omit_optional_tags": [True, False],
    "alphabetical_attributes": [False, True],
}


def _all_options():
    keys = sorted(OPTION_SPACE)
    for vals in itertools.product(*[OPTION_SPACE[k] for k in keys]):
        yield dict(zip(keys, vals))


def _sources():
    for w in WRAPPERS:
        n = w.count("%s")
        for t in TEXTS:
            yield w % ((_esc(t),) * n) if not w.startswith("<!--") else w % t.replace("--", "- -").replace(">", "")
    for tpl in ATTR_TEMPLATES:
        n = tpl.count("%s")
        for v in ATTR_VALUES:
            yield tpl % ((_esc(v),) * n)
    for x in _optional_tag_sources():
        yield x


def run_family(limit_options=None):
    bad, n, known = [], 0, {}
    sources = list(_sources())
    default = [dict(), dict(omit_optional_tags=False)]
    for src in sources:
        for kind in ("etree", "dom"):
            for opts in default:
                n += 1
                try:
                    a, b, out = _roundtrip(src, kind, opts)
                except Exception as e:
                    bad.append([src, kind, opts, "%s: %s" % (type(e).__name__, e)])
                    continue
                if a != b:
                    k = _known(src, a, b)
                    if k:
                        known[k] = known.get(k, 0) + 1
                    else:
                        bad.append([src, kind, opts, out])
    # the full option cross product on the attribute family (where the options matter), etree walker
    attr_sources = [tpl % ((_esc(v),) * tpl.count("%s")) for tpl in ATTR_TEMPLATES[:4] for v in ATTR_VALUES]
    for opts in _all_options():
        for src in attr_sources:
            n += 1
            try:
                a, b, out = _roundtrip(src, "etree", opts)
            except Exception as e:
                bad.append([src, "etree", opts, "%s: %s" % (type(e).__name__, e)])
                continue
            if a != b and not _known(src, a, b):
                bad.append([src, "etree", opts, out])
        if len(bad) > 50:
            break
    return bad, n, known


@ground("C07", tier="thorough")
def roundtrip_over_an_enumerated_family():
    import warnings
    warnings.simplefilter("ignore")
    bad, n, known = run_family()
    r = rec("C07/bounded/serialize-then-parse-on-an-enumerated-family", not bad, n,
            "parse(serialize(t)) == t for the trees of %d texts x %d wrappers and %d attribute values x %d templates under the "
            "default options (etree and dom walkers), and for the attribute family under all %d option combinations"
            % (len(TEXTS), len(WRAPPERS), len(ATTR_VALUES), len(ATTR_TEMPLATES), len(list(_all_options()))),
            witness=bad[:4] or None, exhaustive=False)
    r["bounded"] = "%d (tree, walker, options) cases" % n
    return r

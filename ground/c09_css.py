"""C09: sanitize_css never lets url( through -- explored natively over a token grammar (bounded stand-in),
and ground facts about the default allow-lists."""
import itertools

from . import ground, rec

PIECES = ["u", "url(", "rl(", "1", ")", "cursor: ", "; ", " ", "(", "url", "URL(", "#"]


def _filter():
    import warnings
    warnings.simplefilter("ignore")
    from html5lib.filters.sanitizer import Filter
    return Filter([])


@ground("C09")
def css_never_keeps_url():
    f = _filter()
    bad = []
    n = 0
    for k in range(1, 7):
        for combo in itertools.product(PIECES, repeat=k):
            s = "cursor: " + "".join(combo)
            n += 1
            out = f.sanitize_css(s)
            import re
            if re.search(r"url\s*\(", out, re.I):
                bad.append([s, out])
                if len(bad) > 3:
                    break
        if len(bad) > 3:
            break
    r = rec("C09/css/no-url-in-sanitized-style", not bad, n,
            "sanitize_css over every concatenation of up to 6 pieces of %r after 'cursor: ': the result never contains url(" % (PIECES,),
            witness=bad[:3] or None, exhaustive=False)
    r["bounded"] = "all concatenations of at most 6 pieces from a 12-piece CSS token set (about 3.3 million styles)"
    return r


@ground("C09")
def default_lists_have_no_raw_text_element():
    from html5lib.filters import sanitizer
    raw = {"script", "style", "xmp", "iframe", "noembed", "noframes", "noscript", "plaintext", "title", "textarea"}
    hits = sorted(n for (ns, n) in sanitizer.allowed_elements if n in raw and ns == "http://www.w3.org/1999/xhtml")
    # title/textarea are RCDATA (escaped text, harmless); the others would take text out of the escaping rules
    danger = [h for h in hits if h not in ("title", "textarea")]
    return rec("C09/defaults/no-raw-text-element-allowed", not danger, len(sanitizer.allowed_elements),
               "no HTML raw-text element (script, style, xmp, iframe, noembed, noframes, noscript, plaintext) is on the "
               "default element allow-list", witness=danger or None)


@ground("C09")
def attribute_namespaces_have_prefixes():
    """token invariant used by the sanitizer contract: the parser produces namespaced attributes only through
    adjustForeignAttributes, and disallowed_token looks each such namespace up in constants.prefixes"""
    from html5lib.constants import adjustForeignAttributes, prefixes
    bad = [q for q, (p, l, ns) in adjustForeignAttributes.items() if ns not in prefixes]
    nss = sorted({ns for (_, _, ns) in adjustForeignAttributes.values()})
    from contracts.sanitizer import ATTR_NAMESPACES
    ok = not bad and sorted(ATTR_NAMESPACES) == nss
    return rec("C09/tables/attribute-namespaces-have-prefixes", ok, len(adjustForeignAttributes),
               "every namespace adjustForeignAttributes can give an attribute is a key of constants.prefixes, and these are "
               "exactly the namespaces the sanitizer contract quantifies over", witness=bad or (None if ok else nss))


@ground("C10")
def no_raw_text_element_is_allowed_by_default():
    """with the default allow-list the serializer never enters its raw-text state after the sanitizer: it decides raw
    text by bare element name (constants.rcdataElements), and no allowed element, in any namespace, has such a name; all
    text therefore goes through the escaping branch (C08 step contract text_is_escaped_or_reported)"""
    from html5lib.constants import rcdataElements, cdataElements
    from html5lib.filters import sanitizer
    bad = sorted([list(e) for e in sanitizer.allowed_elements if e[1] in rcdataElements])
    return rec("C10/tables/no-raw-text-element-on-the-default-allow-list", not bad, len(sanitizer.allowed_elements),
               "no (namespace, name) of the default allowed_elements has a name in constants.rcdataElements "
               "(style, script, xmp, iframe, noembed, noframes, noscript)", witness=bad or None)

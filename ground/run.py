"""usage: python -m ground.run <PROP> <tier>  -> one JSON list of records on the last stdout line"""
import importlib
import json
import os
import sys
import traceback

from . import REGISTRY


def main():
    import warnings
    warnings.simplefilter("ignore")
    if sys.argv[1] == "--call":
        mod, fn = sys.argv[2].split(":")
        r = getattr(importlib.import_module(mod), fn)()
        print(json.dumps(bool(r)))
        return
    prop, tier = sys.argv[1], (sys.argv[2] if len(sys.argv) > 2 else "quick")
    here = os.path.dirname(os.path.abspath(__file__))
    for f in sorted(os.listdir(here)):
        if f.endswith(".py") and f not in ("__init__.py", "run.py"):
            importlib.import_module("ground." + f[:-3])
    out = []
    for p, t, fn in REGISTRY:
        if p != prop:
            continue
        if t == "thorough" and tier != "thorough":
            continue
        try:
            r = fn()
        except Exception:
            r = [{"id": "%s/ground/%s" % (prop, fn.__name__), "ok": False, "size": 0,
                  "what": "ground check crashed", "witness": traceback.format_exc()[-1500:], "exhaustive": False,
                  "crash": True}]
        if isinstance(r, dict):
            r = [r]
        out.extend(r)
    print(json.dumps(out))


if __name__ == "__main__":
    main()

"""C14 ground obligations: the tables against independent copies in CPython's stdlib, the reverse
(encode) map, and the error handler on every code point."""
from . import ground, rec


@ground("C14")
def entities_table():
    from html.entities import html5
    from html5lib.constants import entities
    bad = [k for k in set(html5) | set(entities) if html5.get(k) != entities.get(k)]
    return rec("C14/table/named-entities-equal-html.entities.html5", not bad, len(html5),
               "constants.entities equals the standard's 2231-entry table (independent copy: html.entities.html5)",
               witness=sorted(bad)[:5] or None)


@ground("C14")
def c1_table():
    from html import _invalid_charrefs
    from html5lib.constants import replacementCharacters
    bad = [k for k in set(_invalid_charrefs) | set(replacementCharacters)
           if _invalid_charrefs.get(k) != replacementCharacters.get(k)]
    return rec("C14/table/numeric-replacements-equal-html._invalid_charrefs", not bad, len(_invalid_charrefs),
               "constants.replacementCharacters equals the standard's numeric replacement table (html._invalid_charrefs)",
               witness=sorted(bad)[:5] or None)


@ground("C14")
def trie_is_the_table():
    from html5lib._tokenizer import entitiesTrie
    from html5lib.constants import entities
    ok = set(entitiesTrie.keys()) == set(entities) and all(entitiesTrie[k] == v for k, v in entities.items())
    return rec("C14/table/tokenizer-trie-holds-the-table", ok, len(entities),
               "the tokenizer's entitiesTrie has exactly the keys/values of constants.entities")


@ground("C14")
def trie_queries():
    """has_keys_with_prefix / longest_prefix agree with their definitions on every prefix of every
    name and on every one-character deviation the alphabet of the names allows (finite, complete for
    the strings the scanning loop can pass)."""
    from html5lib._tokenizer import entitiesTrie
    from html5lib.constants import entities
    names = sorted(entities)
    prefixes = set()
    for n in names:
        for i in range(len(n) + 1):
            prefixes.add(n[:i])
    alphabet = sorted(set("".join(names)))
    bad = []
    count = 0
    keyset = set(names)
    for p in sorted(prefixes):
        for q in [p] + [p + a for a in alphabet]:
            count += 1
            want = q in prefixes
            if entitiesTrie.has_keys_with_prefix(q) != want:
                bad.append(("has_keys_with_prefix", q))
            lp = None
            for i in range(len(q), 0, -1):
                if q[:i] in keyset:
                    lp = q[:i]
                    break
            try:
                got = entitiesTrie.longest_prefix(q)
            except KeyError:
                got = None
            if got != lp:
                bad.append(("longest_prefix", q, got, lp))
    return rec("C14/trie/queries-agree-with-definition", not bad, count,
               "Trie.has_keys_with_prefix and Trie.longest_prefix equal their set-theoretic definitions on every "
               "key prefix and every one-character extension over the names' alphabet (includes cache behaviour in this order)",
               witness=bad[:3] or None)


def _decode_reference(ref):
    """independent decoder for the two shapes the error handler may produce"""
    from html.entities import html5
    from html import _invalid_charrefs
    assert ref.startswith("&") and ref.endswith(";"), ref
    body = ref[1:]
    if body.startswith("#x"):
        n = int(body[2:-1], 16)
        if n in _invalid_charrefs:
            return _invalid_charrefs[n]
        if 0xD800 <= n <= 0xDFFF or n > 0x10FFFF:
            return "�"
        return chr(n)
    return html5[body]


@ground("C15")
def c15_encode_then_decode_every_code_point():
    r = encode_then_decode_every_code_point()
    r["id"] = r["id"].replace("C14/", "C15/")
    return r


@ground("C07")
def c07_encode_then_decode_every_code_point():
    r = encode_then_decode_every_code_point()
    r["id"] = r["id"].replace("C14/", "C07/")
    return r


@ground("C08")
def c08_encode_then_decode_every_code_point():
    r = encode_then_decode_every_code_point()
    r["id"] = r["id"].replace("C14/", "C08/")
    return r


@ground("C14")
def encode_then_decode_every_code_point():
    from html5lib.serializer import htmlentityreplace_errors
    bad = []
    known = 0
    n = 0
    for cp in range(0x110000):
        ch = chr(cp)
        n += 1
        try:
            out, end = htmlentityreplace_errors(UnicodeEncodeError("ascii", ch, 0, 1, "x"))
            back = _decode_reference(out)
        except Exception as e:
            bad.append([cp, repr(e)])
            continue
        if back != ch or end != 1:
            if cp == 0 or cp == 0x0D or 0x80 <= cp <= 0x9F or 0xD800 <= cp <= 0xDFFF:
                known += 1          # region of the known finding C14-reverse-c1-controls
                continue
            bad.append([cp, out, back.encode("unicode_escape").decode()])
    return rec("C14/reverse/reference-for-every-code-point-decodes-back", not bad, n,
               "htmlentityreplace_errors(c) is a ';'-terminated reference that the standard decodes back to c, for all "
               "0x110000 code points except the known-finding region (NUL, CR, C1 controls, surrogates: %d code points)" % known,
               witness=bad[:5] or None)


def reverse_c1_witness():
    """known finding: U+0080 is written as &#x80; which decodes to U+20AC"""
    from html5lib.serializer import htmlentityreplace_errors
    out, _ = htmlentityreplace_errors(UnicodeEncodeError("ascii", "\x80", 0, 1, "x"))
    return _decode_reference(out) != "\x80"

"""C03 / C04 bounded stand-ins (thorough tier), evaluated on the real parser: every markup string made of at most two
pieces of an alphabet of tags and text, as a document and as a fragment in each context element, with both built-in
tree builders: the parse returns (no exception, within a time limit), a document has the skeleton the property
demands, and both builders produce the same abstract tree.  Plus pathological depth.  Bounded native enumeration:
reported under bounded_standins, never counted as proved -- the insertion-mode handlers are not under contract."""
import itertools
import signal

from . import ground, rec

PIECES = ["x", " ", "&amp;", "<!--c-->", "<!DOCTYPE html>", "</p>", "</br>", "</body>", "</html>", "</table>", "</select>", "</svg>", "</b>", "</a>",
          "</div>", "</td>", "</form>", "</template>", "</head>", "</li>", "</h1>", "</ruby>", "</math>", "</title>", "</textarea>", "</script>"] + \
         ["<%s>" % t for t in ("html", "head", "body", "title", "base", "meta", "style", "script", "noscript", "frameset", "frame", "p", "div", "a",
                               "b", "i", "nobr", "table", "caption", "colgroup", "col", "tbody", "tr", "td", "th", "form", "input", "button",
                               "select", "option", "optgroup", "textarea", "li", "dd", "dt", "h1", "pre", "hr", "br", "img", "svg", "math",
                               "mi", "annotation-xml", "foreignObject", "desc", "ruby", "rt", "rp", "plaintext", "iframe", "object", "marquee",
                               "template", "main", "dialog", "isindex", "image", "xmp", "listing", "font color=x", "svg a=b")]
CONTAINERS = ["div", "table", "tbody", "tr", "td", "select", "colgroup", "caption", "head", "html", "body", "frameset", "title", "textarea",
              "style", "script", "plaintext", "svg", "math", "template", "p", "option"]


class _Timeout(Exception):
    pass


def _alarm(signum, frame):
    raise _Timeout()


def _dump(tree, kind):
    from html5lib import treewalkers
    out, txt = [], []
    for t in treewalkers.getTreeWalker(kind)(tree):
        ty = t["type"]
        if ty in ("Characters", "SpaceCharacters"):
            txt.append(t["data"])
            continue
        if txt:
            out.append(("T", "".join(txt)))
            txt = []
        if ty in ("StartTag", "EmptyTag"):
            out.append(("S", t["namespace"], t["name"], tuple(sorted(t["data"].items()))))
            if ty == "EmptyTag":
                out.append(("E",))
        elif ty == "EndTag":
            out.append(("E",))
        elif ty == "Comment":
            out.append(("C", t["data"]))
        elif ty == "Doctype":
            out.append(("D", t["name"]))
    if txt:
        out.append(("T", "".join(txt)))
    return out


def _skeleton_ok(dump):
    """optional doctype/comments, one html root whose element children are head then body or frameset, no non-space
    text directly under html"""
    i = 0
    while i < len(dump) and dump[i][0] in ("D", "C"):
        i += 1
    if i >= len(dump) or dump[i][:3] != ("S", "http://www.w3.org/1999/xhtml", "html"):
        return False
    depth, kids = 0, []
    for item in dump[i:]:
        if item[0] == "S":
            if depth == 1:
                kids.append(item[2])
            depth += 1
        elif item[0] == "E":
            depth -= 1
            if depth == 0:
                break
        elif item[0] == "T" and depth == 1 and item[1].strip("\t\n\x0c\r ") != "":
            return False
    if depth != 0:
        return False
    tail = dump[i:]
    # after the root only comments
    return kids[:1] == ["head"] and len(kids) == 2 and kids[1] in ("body", "frameset")


MODE_INVARIANT_BREACHES = []


def _watch_mode_invariants():
    """the three mode invariants contracts/phase_progress.py assumes, checked at every call of the handlers that need them
    (returns an undo function)"""
    from html5lib import html5parser as P
    phases = P._phases
    saved = []

    def wrap(cls, name, check):
        real = getattr(cls, name)

        def wrapper(self, token, real=real):
            try:
                ok = check(self, token)
            except Exception as e:
                ok = "check raised %r" % (e,)
            if ok is not True:
                MODE_INVARIANT_BREACHES.append([cls.__name__, name, token.get("name"), str(ok)])
            return real(self, token)
        setattr(cls, name, wrapper)
        saved.append((cls, name, real))

    def scope(self, t):
        return self.tree.elementInScope(t, variant="table")

    def outer(self):
        return any(scope(self, t) for t in ("table", "tbody", "thead", "tfoot"))
    wrap(phases["inRow"], "endTagTableRowGroup", lambda self, tok: (not outer(self)) or scope(self, "tr"))
    wrap(phases["inCell"], "endTagImply", lambda self, tok: (not (outer(self) or scope(self, "tr"))) or scope(self, "td") or scope(self, "th"))
    for m in ("startTagTable", "endTagTable"):
        wrap(phases["inSelectInTable"], m, lambda self, tok: self.tree.elementInScope("select", variant="select") or bool(self.parser.innerHTML))

    def undo():
        for cls, name, real in saved:
            setattr(cls, name, real)
    return undo


def run_family(max_len=2, time_limit=5):
    import html5lib
    import warnings
    warnings.simplefilter("ignore")
    undo = _watch_mode_invariants()
    try:
        return _run_family(max_len, time_limit)
    finally:
        undo()


def _run_family(max_len=2, time_limit=5):
    import html5lib
    import warnings
    warnings.simplefilter("ignore")
    old = signal.signal(signal.SIGALRM, _alarm)
    bad_total, bad_skel, bad_diff, bad_lint, n = [], [], [], [], 0
    try:
        inputs = []
        for k in range(0, max_len + 1):
            for seq in itertools.product(PIECES, repeat=k):
                inputs.append("".join(seq))
        deep = ["<%s>" % t * 4000 for t in ("div", "b", "p", "rt", "li", "table", "select", "svg", "a", "nobr", "td", "font", "ruby", "option")]
        deep += ["<p>" * 50 + "<rt>" * 4000 + "<div>", "<table>" * 500 + "x" * 10, "<b>" * 2000 + "<div>" * 100 + "</b>" * 50, "x" * 200000, "<" * 20000, "&" * 20000 + ";"]
        for src in inputs + deep:
            modes = [(None, s) for s in (False, True)]
            if len(src) < 200:
                modes += [(c, False) for c in CONTAINERS]
            dumps = {}
            for kind in ("etree", "dom"):
                for container, scripting in modes:
                    n += 1
                    signal.alarm(time_limit if len(src) < 200 else 60)
                    try:
                        p = html5lib.HTMLParser(tree=html5lib.getTreeBuilder(kind))
                        if container is None:
                            tree = p.parse(src, scripting=scripting)
                        else:
                            tree = p.parseFragment(src, container=container, scripting=scripting)
                        if len(src) < 200:
                            dumps[(kind, container, scripting)] = _dump(tree, kind)
                            try:
                                from html5lib.filters.lint import Filter as Lint
                                from html5lib import treewalkers
                                for _ in Lint(treewalkers.getTreeWalker(kind)(tree)):
                                    pass
                            except _Timeout:
                                raise
                            except Exception as e:
                                bad_lint.append([src[:80], kind, container, "%s: %s" % (type(e).__name__, str(e)[:120])])
                        signal.alarm(0)
                    except _Timeout:
                        bad_total.append([src[:80], kind, container, "no result within the time limit"])
                        continue
                    except RecursionError:
                        signal.alarm(0)
                        bad_total.append([src[:80], kind, container, "RecursionError"])
                        continue
                    except Exception as e:
                        signal.alarm(0)
                        bad_total.append([src[:80], kind, container, "%s: %s" % (type(e).__name__, e)])
                        continue
                    finally:
                        signal.alarm(0)
            for (kind, container, scripting), d in dumps.items():
                if container is None and not _skeleton_ok(d):
                    bad_skel.append([src[:80], kind, scripting, repr([x[:3] for x in d])[:200]])
                if kind == "etree" and (("dom", container, scripting) in dumps):
                    a, b = d, dumps[("dom", container, scripting)]
                    # the etree builder's root-element form has no comments/doctype around the root: compare from the first start tag
                    if container is None:
                        a = [x for x in a]
                        while b and b[0][0] in ("C", "D"):
                            b = b[1:]
                        while a and a[0][0] in ("C", "D"):
                            a = a[1:]
                        while b and b[-1][0] == "C":
                            b = b[:-1]
                        while a and a[-1][0] == "C":
                            a = a[:-1]
                    if a != b:
                        bad_diff.append([src[:80], container, scripting, repr(a)[:150], repr(b)[:150]])
            if len(bad_total) > 30 or len(bad_skel) > 30 or len(bad_diff) > 30:
                break
    finally:
        signal.signal(signal.SIGALRM, old)
    return bad_total, bad_skel, bad_diff, n, bad_lint


_CACHE = {}


def _family():
    if "r" not in _CACHE:
        _CACHE["r"] = run_family()
    return _CACHE["r"]


@ground("C03", tier="thorough")
def parse_is_total_on_an_enumerated_family():
    bad_total, bad_skel, bad_diff, n, bad_lint = _family()
    bad = bad_total + bad_skel + [["assumed mode invariant does not hold"] + b for b in MODE_INVARIANT_BREACHES[:5]]
    r = rec("C03/bounded/total-and-skeleton-on-an-enumerated-family", not bad, n,
            "every string of at most 2 pieces out of %d (tags, end tags, text, comment, doctype), as a document (scripting off/on) "
            "and as a fragment in %d context elements, with both tree builders, plus 20 pathological inputs (depth 4000, 200k "
            "characters): parse returns within the time limit without raising, and a document has doctype/comments, one html root "
            "with head then body or frameset, no text under html; the three mode invariants assumed by the reprocessing-progress "
            "contracts hold at every call of the handlers that rely on them" % (len(PIECES), len(CONTAINERS)), witness=bad[:4] or None, exhaustive=False)
    r["bounded"] = "%d parses" % n
    return r


@ground("C04", tier="thorough")
def builders_agree_on_an_enumerated_family():
    bad_total, bad_skel, bad_diff, n, bad_lint = _family()
    r = rec("C04/bounded/builders-agree-on-an-enumerated-family", not bad_diff, n,
            "the etree and dom builders give the same abstract tree (walker tokens with adjacent text merged) for every string "
            "of at most 2 pieces out of %d, as a document and as a fragment in %d context elements" % (len(PIECES), len(CONTAINERS)),
            witness=bad_diff[:4] or None, exhaustive=False)
    r["bounded"] = "%d parses" % n
    return r


@ground("C11", tier="thorough")
def walker_streams_pass_lint_on_an_enumerated_family():
    bad_total, bad_skel, bad_diff, n, bad_lint = _family()
    r = rec("C11/bounded/walker-streams-pass-lint-and-agree", not (bad_lint or bad_diff), n,
            "for every tree of the enumerated family (strings of at most 2 pieces out of %d, document and fragment in %d context "
            "elements, both builders) the walker's token stream is accepted by the Lint filter, and the etree and dom walkers emit "
            "the same stream once adjacent text is merged" % (len(PIECES), len(CONTAINERS)), witness=(bad_lint + bad_diff)[:4] or None,
            exhaustive=False)
    r["bounded"] = "%d trees" % n
    return r

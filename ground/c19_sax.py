"""C19 bounded stand-in (thorough tier), on the real code: to_sax() over the walker stream of every tree of a family of
documents produces one startDocument/endDocument pair, balanced prefix mappings, properly nested element events, and a
tree rebuilt from the events has the same elements, namespaces, attributes and text as the source (comments and doctype
aside).  Bounded native enumeration, never counted as proved."""
from xml.sax.handler import ContentHandler

from . import ground, rec

DOCS = ["<p>x", "<p a=1 b='2'>x<b>y</b>z</p>", "<svg xlink:href=a xml:lang=b viewBox=c><circle r=1 /></svg>", "<math><mi xlink:href=q>x</mi></math>",
        "<table><tr><td>a<td>b</table>", "<!--c--><p>x<!--d--></p>", "<!DOCTYPE html><title>t</title>", "<pre>\n\nx</pre>", "<p>a&amp;b &lt; c</p>",
        "<svg xmlns:xlink='http://www.w3.org/1999/xlink'><a xlink:title=t>x</a></svg>", "<br><img alt=x><input disabled>", "<p>\U0001F600</p>",
        "<div><div><div>deep</div></div>tail</div>", "<select><option selected>a<option>b</select>", "<textarea>\n a </textarea>"]


class Recorder(ContentHandler):
    def __init__(self):
        ContentHandler.__init__(self)
        self.events = []

    def startDocument(self):
        self.events.append(("startDocument",))

    def endDocument(self):
        self.events.append(("endDocument",))

    def startPrefixMapping(self, prefix, uri):
        self.events.append(("startPrefixMapping", prefix, uri))

    def endPrefixMapping(self, prefix):
        self.events.append(("endPrefixMapping", prefix))

    def startElementNS(self, name, qname, attrs):
        self.events.append(("start", name, qname, sorted(((k, attrs.getValue(k)) for k in attrs.getNames()), key=repr)))

    def endElementNS(self, name, qname):
        self.events.append(("end", name, qname))

    def characters(self, content):
        self.events.append(("chars", content))


def _tree_from_events(events):
    out, txt = [], []
    for e in events:
        if e[0] == "chars":
            txt.append(e[1])
            continue
        if txt:
            out.append(("T", "".join(txt)))
            txt = []
        if e[0] == "start":
            out.append(("S", e[1][0], e[1][1], tuple((k, v) for k, v in e[3])))
        elif e[0] == "end":
            out.append(("E",))
    return out


def _tree_from_walker(tokens):
    out, txt = [], []
    for t in tokens:
        ty = t["type"]
        if ty in ("Characters", "SpaceCharacters"):
            txt.append(t["data"])
            continue
        if ty in ("Comment", "Doctype"):
            continue
        if txt:
            out.append(("T", "".join(txt)))
            txt = []
        if ty in ("StartTag", "EmptyTag"):
            out.append(("S", t["namespace"], t["name"], tuple(sorted(t["data"].items(), key=repr))))
            if ty == "EmptyTag":
                out.append(("E",))
        elif ty == "EndTag":
            out.append(("E",))
    if txt:
        out.append(("T", "".join(txt)))
    return out


def run_family():
    import warnings
    import html5lib
    from html5lib import treewalkers
    from html5lib.treeadapters import sax
    warnings.simplefilter("ignore")
    bad, n = [], 0
    for src in DOCS:
        for kind in ("etree", "dom"):
            n += 1
            doc = html5lib.parse(src, treebuilder=kind)
            w = treewalkers.getTreeWalker(kind)
            rec_ = Recorder()
            sax.to_sax(w(doc), rec_)
            ev = rec_.events
            names = [e[0] for e in ev]
            problems = []
            if names.count("startDocument") != 1 or names.count("endDocument") != 1 or names[0] != "startDocument" or names[-1] != "endDocument":
                problems.append("document events")
            if sorted(e[1] for e in ev if e[0] == "startPrefixMapping") != sorted(e[1] for e in ev if e[0] == "endPrefixMapping"):
                problems.append("prefix mappings not balanced")
            stack = []
            for e in ev:
                if e[0] == "start":
                    stack.append(e[1])
                elif e[0] == "end":
                    if not stack or stack.pop() != e[1]:
                        problems.append("nesting")
                        break
            if stack:
                problems.append("unclosed elements")
            if _tree_from_events(ev) != _tree_from_walker(w(doc)):
                problems.append("rebuilt tree differs")
            if problems:
                bad.append([src[:60], kind, problems, repr(ev)[:200]])
    return bad, n


@ground("C19", tier="thorough")
def sax_events_rebuild_the_tree_on_a_family():
    bad, n = run_family()
    r = rec("C19/bounded/sax-events-well-formed-and-rebuild-the-tree", not bad, n,
            "for %d documents x {etree, dom}: one startDocument/endDocument pair, balanced prefix mappings, properly nested "
            "start/endElementNS, and the element/attribute/text structure rebuilt from the events equals the walked tree "
            "(comments and doctype aside)" % len(DOCS), witness=bad[:3] or None, exhaustive=False)
    r["bounded"] = "%d (document, walker) cases" % n
    return r

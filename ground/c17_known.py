"""Witness replays for known findings of C17 (not obligations)."""


def cross_token_run():
    """adjacent text tokens: the run of spaces spanning them is not merged into one"""
    from html5lib.filters.whitespace import Filter
    toks = [{"type": "Characters", "data": "a"}, {"type": "SpaceCharacters", "data": " "},
            {"type": "SpaceCharacters", "data": " "}, {"type": "Characters", "data": "b"}]
    out = "".join(t["data"] for t in Filter(toks))
    return "  " in out

"""C19 ground obligations: the qualified-name table handed to SAX attributes and the prefix mappings."""
from . import ground, rec


@ground("C19")
def qname_table_inverts_adjust_foreign_attributes():
    from html5lib.constants import adjustForeignAttributes, unadjustForeignAttributes
    bad = []
    for qname, (prefix, local, ns) in adjustForeignAttributes.items():
        if unadjustForeignAttributes.get((ns, local)) != qname:
            bad.append(qname)
    ok = not bad and len(unadjustForeignAttributes) == len(adjustForeignAttributes)
    return rec("C19/tables/unadjustForeignAttributes-is-the-inverse", ok, len(adjustForeignAttributes),
               "every adjusted foreign attribute (ns, local) maps back to its qualified name, incl. the prefix-less xmlns",
               witness=bad or None)


@ground("C19")
def prefix_mapping_table():
    from html5lib.constants import adjustForeignAttributes
    from html5lib.treeadapters import sax
    want = {p: ns for (p, l, ns) in adjustForeignAttributes.values() if p is not None}
    return rec("C19/tables/prefix_mapping", sax.prefix_mapping == want and len(want) == 3, len(want),
               "prefix_mapping declares exactly the prefixes of the adjusted foreign attributes (xlink, xml, xmlns)",
               witness=None if sax.prefix_mapping == want else [sax.prefix_mapping])

"""C18 and C20 bounded stand-ins (thorough tier) on the real code; bounded native enumerations, never counted as proved."""
import itertools
import re

from . import ground, rec


@ground("C18", tier="thorough")
def attributes_sorted_and_kept_for_every_order():
    from html5lib.filters.alphabeticalattributes import Filter
    XL = "http://www.w3.org/1999/xlink"
    keys = [(None, "href"), (XL, "href"), (None, "a"), ("", "b"), (XL, "a"), (None, "href2"), ("http://x", "href")]
    bad, n = [], 0
    for size in range(0, 6):
        for subset in itertools.combinations(keys, size):
            for perm in itertools.permutations(subset):
                n += 1
                data = {k: "v%d" % i for i, k in enumerate(perm)}
                tok = {"type": "StartTag", "name": "x", "namespace": None, "data": dict(data)}
                other = {"type": "Characters", "data": "t"}
                out = list(Filter([tok, other]))
                got = list(out[0]["data"].items())
                want = sorted(data.items(), key=lambda kv: (kv[0][0] or "", kv[0][1]))
                if got != want or out[1] is not other or len(out) != 2:
                    bad.append([[list(k) for k in perm], repr(got)[:200]])
                    break
            if len(bad) > 5:
                break
    r = rec("C18/bounded/sorted-same-attributes-for-every-order", not bad, n,
            "for every subset of at most 5 of 7 attribute keys (namespaced and not, sharing local names) in every order: the "
            "filter emits exactly the same (name, value) pairs ordered by (namespace or '', local name) and passes other tokens "
            "on untouched", witness=bad[:3] or None, exhaustive=False)
    r["bounded"] = "%d attribute orders" % n
    return r


@ground("C20", tier="thorough")
def xml_names_valid_injective_and_reversible():
    from html5lib._ihatexml import InfosetFilter
    from xml.parsers import expat
    f = InfosetFilter()
    alpha = ["a", "Z", ":", "é", "U", "0", "-", " ", "·", "_", ".", "<", "x", "F", "̀", "￾"]        # BMP only: astral characters are name characters in XML 1.0 5th edition but not for expat
    bad, n, seen = [], 0, {}

    def valid(name):
        p = expat.ParserCreate()
        got = []
        p.StartElementHandler = lambda nm, attrs: got.append((nm, attrs))
        try:
            p.Parse(("<%s/>" % name).encode("utf-8"), True)
        except (expat.ExpatError, UnicodeEncodeError):
            return False
        return got == [(name, {})]
    for k in range(1, 4):
        for t in itertools.product(alpha, repeat=k):
            s = "".join(t)
            n += 1
            escaped_already = re.search("U[0-9A-F]{5}", s) is not None
            for label, fn in (("element", f.coerceElement), ("attribute", f.coerceAttribute)):
                r = fn(s)
                if r is None:
                    continue
                if not valid(r):
                    bad.append([label, s, r, "not a name an XML parser accepts"])
                if not escaped_already and f.fromXmlName(r) != s:
                    bad.append([label, s, r, "fromXmlName gives %r" % f.fromXmlName(r)])
                if valid(s) and ":" not in s and r != s and not escaped_already:
                    bad.append([label, s, r, "legal colon-free name changed"])
                key = (label, r)
                if key in seen and seen[key] != s and not escaped_already and re.search("U[0-9A-F]{5}", seen[key]) is None:
                    bad.append([label, s, seen[key], "both map to %r" % r])
                seen[key] = s
        if len(bad) > 10:
            break
    r = rec("C20/bounded/names-valid-injective-reversible", not bad, n,
            "for every string of at most 3 characters out of %d (letters, digits, colon, combining mark, noncharacter, "
            "space, '<'): coerceElement/coerceAttribute give a name expat accepts, leave legal colon-free names alone, map "
            "distinct names to distinct names and fromXmlName turns them back (names containing a U+hex escape pattern aside)"
            % len(alpha), witness=bad[:4] or None, exhaustive=False)
    r["bounded"] = "%d names x {element, attribute}" % n
    return r

"""C04 ground / bounded obligations evaluated on the real modules:
  * the ElementTree model the etree-builder contracts are proved against agrees with xml.etree.ElementTree
    on every operation sequence up to a stated length (validates the assumption; bounded)
  * attributes set through either builder read back, through the matching tree walker, as the same abstract
    {(namespace, local name): value} map, for every attribute dict over a small universe (bounded)"""
import itertools

from . import ground, rec


def _observe(e):
    return (e.text, e.tail, len(e), [c.tag for c in e], [c.tail for c in e])


@ground("C04")
def etmodel_agrees_with_elementtree():
    from xml.etree import ElementTree as ET
    from spec.etmodel import Element as M
    ops = []
    for x in range(3):
        ops.append(("append", x))
        ops.append(("remove", x))
        for i in range(3):
            ops.append(("insert", i, x))
    ops += [("clear",), ("text", "t"), ("tail0", "u")]
    bad = []
    n = 0
    for length in range(1, 5):
        for seq in itertools.product(ops, repeat=length):
            n += 1
            real = ET.Element("r")
            model = M("r")
            pool_r = [ET.Element("k%d" % x) for x in range(3)]
            pool_m = [M("k%d" % x) for x in range(3)]
            for op in seq:
                outs = []
                for root, pool in ((real, pool_r), (model, pool_m)):
                    try:
                        if op[0] == "append":
                            root.append(pool[op[1]])
                        elif op[0] == "remove":
                            root.remove(pool[op[1]])
                        elif op[0] == "insert":
                            root.insert(op[1], pool[op[2]])
                        elif op[0] == "clear":
                            del root[:]
                        elif op[0] == "text":
                            root.text = op[1]
                        elif op[0] == "tail0":
                            if len(root):
                                root[0].tail = op[1]
                        outs.append(("ok", _observe(root), [list(root).index(c) if c in list(root) else -1 for c in pool]))
                    except Exception as e:
                        outs.append(("exc", type(e).__name__))
                if outs[0] != outs[1]:
                    bad.append([list(map(list, seq)), repr(outs[0]), repr(outs[1])])
                    break
            if len(bad) > 3:
                break
    r = rec("C04/assumption/etmodel-agrees-with-ElementTree", not bad, n,
            "spec/etmodel.py and xml.etree.ElementTree.Element behave alike (children, order, text, tails, exceptions) on every "
            "sequence of at most 4 append/insert/remove/del[:]/text/tail operations over three child elements",
            witness=bad[:2] or None, exhaustive=False)
    r["bounded"] = "operation sequences of length <= 4 over 3 children (%d sequences)" % n
    return r


XLINK = "http://www.w3.org/1999/xlink"
XML = "http://www.w3.org/XML/1998/namespace"
XMLNS = "http://www.w3.org/2000/xmlns/"
QNAMES = ["href", "lang", "a", "xlink:href", "xml:lang", "xmlns:xlink", "xmlns", "xlink:title", "xlink", "title"]


def _read_back(kind, attrs, ns_html):
    from html5lib import treebuilders, treewalkers
    tb = treebuilders.getTreeBuilder(kind)(ns_html)
    tb.reset()
    tb.insertRoot({"name": "html", "data": {}, "namespace": "http://www.w3.org/1999/xhtml", "type": 3})
    el = tb.createElement({"name": "svg", "namespace": "http://www.w3.org/2000/svg", "data": dict(attrs), "type": 3})
    tb.openElements[-1].appendChild(el)
    doc = tb.getDocument()
    got = None
    for t in treewalkers.getTreeWalker(kind)(doc):
        if t["type"] in ("StartTag", "EmptyTag") and t["name"] == "svg":
            got = dict(t["data"])
    return got


def _expected(attrs):
    out = {}
    for k, v in attrs.items():
        if isinstance(k, tuple):
            out[(k[2], k[1])] = v
        else:
            out[(None, k)] = v
    return out


def _minidom_local_name_clash(keys):
    """two attributes without namespace whose names have the same part after the first ':' (href / xlink:href):
    minidom files both under (None, 'href') and drops the first"""
    plain = [k for k in keys if not isinstance(k, tuple)]
    locs = [k.split(":", 1)[-1] for k in plain]
    return len(set(locs)) < len(locs)


def dom_local_name_clash_witness():
    """known finding: the dom builder loses href when xlink:href is also present on an HTML element"""
    import html5lib
    doc = html5lib.parse('<p href="a" xlink:href="b">x', treebuilder="dom")
    p = doc.getElementsByTagName("p")[0]
    return sorted(p.attributes.keys()) != ["href", "xlink:href"]


@ground("C11")
def c11_attributes_read_back_alike():
    """the same obligation read as a walker obligation (C11): getNodeDetails of the etree and dom walkers report each
    attribute under (namespace, local name), un-namespaced ones under their whole name"""
    r = attributes_read_back_alike()
    r["id"] = r["id"].replace("C04/", "C11/")
    return r


@ground("C04")
def attributes_read_back_alike():
    bad = []
    n = 0
    known = 0
    from html5lib.constants import adjustForeignAttributes
    for size in range(0, 4):
        for names in itertools.combinations(QNAMES, size):
            for foreign in (False, True):
                # what the parser hands to createElement: a dict keyed by qualified name, with the foreign attributes of
                # the standard's table re-keyed as (prefix, local, namespace) in foreign content
                attrs = {}
                for i, q in enumerate(names):
                    k = adjustForeignAttributes[q] if foreign and q in adjustForeignAttributes else q
                    attrs[k] = "v%d" % i
                keys = list(attrs)
                want = _expected(attrs)
                n += 1
                for kind in ("etree", "dom"):
                    try:
                        got = _read_back(kind, attrs, True)
                    except Exception as e:
                        got = "%s: %s" % (type(e).__name__, e)
                    if got != want and kind == "dom" and _minidom_local_name_clash(keys):
                        known += 1          # region of the known finding C04-dom-local-name-clash
                        continue
                    if got != want:
                        bad.append([kind, [list(k) if isinstance(k, tuple) else k for k in keys], repr(got), repr(want)])
        if len(bad) > 5:
            break
    r = rec("C04/attributes/both-builders-read-back-the-same-map", not bad, n,
            "for every set of at most 3 attributes over a universe of 10 plain and namespaced names, the element built by "
            "the etree and by the dom builder reads back, through its tree walker, as the abstract map {(namespace, local): value} "
            "(outside the known-finding region: %d dom cases with two un-namespaced names sharing the part after ':')" % known,
            witness=bad[:3] or None, exhaustive=False)
    r["bounded"] = "attribute sets of size <= 3 over 10 qualified names, in HTML and in foreign content (%d dicts) x {etree, dom}" % n
    return r

"""C16 bounded stand-in (thorough tier), on the real parser: strict mode raises ParseError (and nothing else) exactly when
the same input parsed non-strictly records an error, and the error raised is the first one recorded; every recorded error
formats and lies inside the input.  Bounded native enumeration over the C03 family of inputs, never counted as proved."""
import itertools

from . import ground, rec


def run_family(max_len=2):
    import warnings
    import html5lib
    from html5lib.html5parser import ParseError
    from html5lib.constants import E
    from .c03_totality import PIECES
    warnings.simplefilter("ignore")
    bad, n = [], 0
    inputs = ["".join(seq) for k in range(0, max_len + 1) for seq in itertools.product(PIECES, repeat=k)]
    conforming = ["<!DOCTYPE html><title>t</title><p>ok</p>", "<!DOCTYPE html><html><head><title>t</title></head><body><p>a<b>b</b></p></body></html>"]
    inputs += conforming
    for src in inputs:
        n += 1
        p = html5lib.HTMLParser()
        try:
            p.parse(src)
        except Exception as e:
            bad.append([src[:60], "non-strict parse raised %s" % type(e).__name__])
            continue
        recorded = list(p.errors)
        if src in conforming:
            if recorded:
                bad.append([src[:60], "conforming document records %r" % (recorded[:2],)])
        for (line, col), code, vars_ in recorded:
            try:
                E[code] % vars_
            except Exception as e:
                bad.append([src[:60], "message of %s does not format: %s" % (code, type(e).__name__)])
            lines = src.replace("\r\n", "\n").replace("\r", "\n").split("\n")
            if not (1 <= line <= len(lines) + 1 and 0 <= col <= max(len(x) for x in lines) + 1):
                bad.append([src[:60], "position %r of %s outside the input" % ((line, col), code)])
        s = html5lib.HTMLParser(strict=True)
        try:
            s.parse(src)
            raised = None
        except ParseError as e:
            raised = e
        except Exception as e:
            bad.append([src[:60], "strict parse raised %s: %s" % (type(e).__name__, e)])
            continue
        if (raised is not None) != bool(recorded):
            bad.append([src[:60], "strict raised=%r but %d errors recorded" % (raised is not None, len(recorded))])
        elif raised is not None:
            first = recorded[0]
            if str(raised) != E[first[1]] % first[2]:
                bad.append([src[:60], "raised %r, first recorded %r" % (str(raised), E[first[1]] % first[2])])
        if len(bad) > 20:
            break
    return bad, n


@ground("C16", tier="thorough")
def strict_raises_exactly_when_an_error_is_recorded():
    bad, n = run_family()
    r = rec("C16/bounded/strict-raises-the-first-recorded-error", not bad, n,
            "for every string of at most 2 pieces of the C03 alphabet and two conforming documents: non-strict parsing never raises; "
            "every recorded error formats with its variables and has a position inside the input; strict parsing raises ParseError "
            "and nothing else exactly when errors were recorded, with the message of the first one", witness=bad[:4] or None, exhaustive=False)
    r["bounded"] = "%d inputs" % n
    return r

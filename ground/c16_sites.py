"""C16: every parse-error site names a code that has a message template which formats with the
variables supplied there.  Sites are found in the AST of the real files on every run."""
import ast
import re

from . import ground, rec, parse_repo, enclosing_functions

FILES = ["html5lib/html5parser.py", "html5lib/_tokenizer.py", "html5lib/_inputstream.py"]
PLACEHOLDER = re.compile(r"%\((\w+)\)")
TYPED = re.compile(r"%\((\w+)\)[-#0 +]*\d*(?:\.\d+)?([sdxXrc])")


def _const_str(n):
    return n.value if isinstance(n, ast.Constant) and isinstance(n.value, str) else None


def _dict_keys(n):
    """keys of a dict literal / dict(...) as a set of str, or None if not static"""
    if n is None:
        return set()
    if isinstance(n, ast.Dict):
        ks = [_const_str(k) for k in n.keys]
        return None if any(k is None for k in ks) else set(ks)
    if isinstance(n, ast.Constant) and n.value is None:
        return set()
    return None


def sites():
    """-> list of (file, function, ordinal, code or None, datavars keys or None, lineno, forwarded)"""
    out = []
    for rel in FILES:
        tree, src = parse_repo(rel)
        encl = enclosing_functions(tree)
        counters = {}
        for node in ast.walk(tree):
            code = keys = None
            kind = None
            if isinstance(node, ast.Call) and isinstance(node.func, ast.Attribute) and node.func.attr == "parseError":
                kind = "call"
                args = list(node.args)
                kw = {k.arg: k.value for k in node.keywords}
                c = args[0] if args else kw.get("errorcode")
                d = args[1] if len(args) > 1 else kw.get("datavars")
                code = _const_str(c) if c is not None else "XXX-undefined-error"
                keys = _dict_keys(d)
                forwarded = c is not None and code is None
            elif isinstance(node, ast.Dict):
                d = {(_const_str(k) if k is not None else None): v for k, v in zip(node.keys, node.values)}
                t = d.get("type")
                is_pe = (isinstance(t, ast.Subscript) and isinstance(t.value, ast.Name) and t.value.id == "tokenTypes"
                         and _const_str(t.slice) == "ParseError")
                if not is_pe:
                    continue
                kind = "token"
                code = _const_str(d.get("data")) if "data" in d else None
                keys = _dict_keys(d.get("datavars"))
                forwarded = "data" in d and code is None
            elif (isinstance(node, ast.Call) and isinstance(node.func, ast.Attribute) and node.func.attr == "append"
                  and isinstance(node.func.value, ast.Attribute) and node.func.value.attr == "errors"
                  and rel.endswith("_inputstream.py")):
                kind = "stream"
                code = _const_str(node.args[0]) if node.args else None
                keys = set()
                forwarded = code is None
            else:
                continue
            fn = encl.get(id(node)) or "<module>"
            n = counters.get((rel, fn, kind), 0) + 1
            counters[(rel, fn, kind)] = n
            out.append((rel, fn, "%s%d" % (kind, n), code, keys, node.lineno, forwarded))
    return out


@ground("C16")
def error_sites():
    from html5lib.constants import E
    recs = []
    all_sites = sites()
    bad = []
    forwarded = []
    for rel, fn, ordn, code, keys, line, fwd in all_sites:
        oid = "C16/site/%s:%s/%s/%s" % (rel.split("/")[-1], fn, ordn, code)
        if fwd:
            forwarded.append(oid)
            continue
        ok = code in E
        why = None
        if not ok:
            why = "code has no message template in constants.E"
        else:
            need = set(PLACEHOLDER.findall(E[code]))
            if keys is None:
                ok, why = False, "datavars not statically known"
            elif not need <= keys:
                ok, why = False, "template needs %s, site supplies %s" % (sorted(need), sorted(keys))
        if not ok:
            bad.append(rec(oid, False, 1, why, witness={"file": rel, "line": line, "code": code}))
    recs.append(rec("C16/sites/all-codes-have-formattable-templates", not bad, len(all_sites),
                    "every parseError(...) call, ParseError token literal and stream error site: code in constants.E and "
                    "placeholders of E[code] covered by the datavars given at the site (%d sites, %d forward a queued token)"
                    % (len(all_sites), len(forwarded))))
    recs.extend(bad)
    # forwarding sites: exactly the two that re-emit queued tokens / stream errors
    recs.append(rec("C16/sites/forwarding-sites", len(forwarded) <= 3, len(forwarded),
                    "non-literal sites only forward tokens produced at literal sites: " + ", ".join(forwarded),
                    witness=forwarded if len(forwarded) > 3 else None))
    return recs


@ground("C16")
def templates_format():
    from html5lib.constants import E
    bad = []
    for code, tpl in E.items():
        need = set(PLACEHOLDER.findall(tpl))
        try:
            tpl % {k: (1 if t in "dxXc" else "x") for k, t in TYPED.findall(tpl)}
        except Exception as e:
            bad.append([code, repr(e)])
    return rec("C16/templates/every-template-formats", not bad, len(E),
               "every message template in constants.E formats with its own placeholders", witness=bad or None)


@ground("C16")
def strict_read_only_in_parseError():
    tree, _ = parse_repo("html5lib/html5parser.py")
    encl = enclosing_functions(tree)
    reads = []
    for node in ast.walk(tree):
        if isinstance(node, ast.Attribute) and node.attr == "strict" and isinstance(node.ctx, ast.Load):
            reads.append(encl.get(id(node)))
    ok = reads == ["HTMLParser.parseError"]
    return rec("C16/strict/only-parseError-reads-strict", ok, len(reads),
               "the strict flag is read exactly once, in HTMLParser.parseError", witness=None if ok else reads)


@ground("C16")
def only_reparse_is_caught():
    out = []
    for rel in ["html5lib/html5parser.py", "html5lib/treebuilders/base.py"]:
        tree, _ = parse_repo(rel)
        for node in ast.walk(tree):
            if isinstance(node, ast.ExceptHandler):
                t = ast.unparse(node.type) if node.type is not None else "<bare>"
                out.append((rel, node.lineno, t))
    ok = all(t == "_ReparseException" for _, _, t in out)
    return rec("C16/except/only-reparse-exception-caught", ok, len(out),
               "parser and tree-builder base catch nothing but _ReparseException (a ParseError cannot be swallowed)",
               witness=None if ok else out)


@ground("C16")
def mainloop_forwards_tokenizer_errors():
    """mainLoop hands every ParseError token to parseError(data, datavars)"""
    tree, src = parse_repo("html5lib/html5parser.py")
    hits = 0
    for node in ast.walk(tree):
        if isinstance(node, ast.Call) and isinstance(node.func, ast.Attribute) and node.func.attr == "parseError":
            s = ast.unparse(node)
            if "new_token['data']" in s and "datavars" in s:
                hits += 1
    return rec("C16/mainloop/forwards-parse-error-tokens", hits == 1, 1,
               "mainLoop calls parseError(new_token['data'], new_token.get('datavars', {})) for ParseError tokens",
               witness=None if hits == 1 else hits)

"""C07/C08 ground obligations: the serializer's element tables against what the parser does with the same names
(evaluated on the real parser): an element written without end tag must be void to the parser, text written
unescaped must be read as raw text."""
from . import ground, rec


def _parse_body(markup):
    import html5lib
    doc = html5lib.parse(markup, namespaceHTMLElements=False)
    return doc


def _is_void_to_the_parser(name):
    # a second start tag directly after the first must become a sibling, not a child
    if name == "col":
        doc = _parse_body("<table><col><col>")
        cols = doc.findall(".//col")
        return len(cols) == 2 and all(len(c) == 0 for c in cols)
    doc = _parse_body("<body><%s><i>" % name)
    els = doc.findall(".//%s" % name)
    return len(els) == 1 and len(els[0]) == 0 and not (els[0].text or "")


def _is_raw_text_to_the_parser(name, escapable):
    doc = _parse_body("<body><%s><b>&amp;</%s>" % (name, name))
    els = doc.findall(".//%s" % name)
    if len(els) != 1 or len(els[0]) != 0:
        return False
    return els[0].text == ("<b>&" if escapable else "<b>&amp;")


def noscript_witness():
    """known finding: with scripting off (the parser's default) <noscript> content is markup, but the serializer
    writes its text unescaped: the tree of '<body><noscript>&lt;b&gt;</noscript>' does not survive the round trip"""
    import html5lib
    doc = html5lib.parse("<body><noscript>&lt;b&gt;</noscript>", namespaceHTMLElements=False)
    out = html5lib.serialize(doc, omit_optional_tags=False)
    again = html5lib.parse(out, namespaceHTMLElements=False)
    return again.find(".//noscript/b") is not None and doc.find(".//noscript/b") is None


def _tables():
    from html5lib.constants import voidElements, rcdataElements, cdataElements
    bad, known = [], []
    n = 0
    for name in sorted(voidElements):
        n += 1
        if not _is_void_to_the_parser(name):
            (known if name == "event-source" else bad).append(["void", name])
    for name in sorted(rcdataElements):
        n += 1
        if not _is_raw_text_to_the_parser(name, False):
            (known if name == "noscript" else bad).append(["raw text", name])
    for name in sorted(cdataElements):
        n += 1
        if not _is_raw_text_to_the_parser(name, True):
            bad.append(["escapable raw text", name])
    return bad, known, n


def _record(prop):
    bad, known, n = _tables()
    return rec("%s/tables/serializer-tables-agree-with-the-parser" % prop, not bad, n,
               "every name in constants.voidElements is void to the parser, every name in rcdataElements / cdataElements is "
               "read as raw text / escapable raw text by the parser (scripting off); known-finding region: %s" % known,
               witness=bad or None)


@ground("C07")
def c07_serializer_tables_agree_with_the_parser():
    return _record("C07")


@ground("C08")
def c08_serializer_tables_agree_with_the_parser():
    return _record("C08")


def attribute_prefix_witness():
    """known finding: the serializer writes a namespaced attribute under its local name only (xlink:href -> href), so
    the attribute comes back without its namespace (html5lib's own test_alphabeticalattributes carries a FIXME for it)"""
    import html5lib
    ns = "{http://www.w3.org/1999/xlink}href"
    doc = html5lib.parse('<svg xlink:href="a">')
    again = html5lib.parse(html5lib.serialize(doc, omit_optional_tags=False))
    svg1 = doc.find(".//{http://www.w3.org/2000/svg}svg")
    svg2 = again.find(".//{http://www.w3.org/2000/svg}svg")
    return ns in svg1.attrib and ns not in svg2.attrib

"""C15 bounded stand-in (thorough tier): the consumer side on the real code.  A document serialized with an output
encoding and inject_meta_charset is parsed again from the bytes with no hints: the parser must pick that encoding and
build the same tree (meta elements aside).  Bounded native enumeration, never counted as proved."""
from . import ground, rec

DOCS = ["<p>x", "<title>t</title><p>é€ x", "<meta charset=ascii><p>é", "<meta http-equiv=Content-Type content='text/html; charset=ascii'><p>é",
        "<head></head><body>é", "<meta name=x content=y><p>é", "<p>" + "x" * 2000 + "é", "<script>" + "s" * 1100 + "</script><p>é€",
        "<meta charset=utf-8><meta charset=latin1><p>é", "<title>" + "t" * 1100 + "</title><p>é", "<p title='é€'>я</p>", "<p>\U0001F600 &amp; &lt;</p>",
        "<style>" + "a" * 1030 + "</style>é", "<meta content='text/html; charset=x' http-equiv=CONTENT-TYPE>é", "<link rel=a><meta charset=b>é"]
ENCODINGS = ["utf-8", "iso-8859-1", "windows-1252", "shift_jis", "ascii", "koi8-r", "big5", "iso-8859-2", "euc-jp", "gb18030", "windows-1251",
             "iso-8859-15", "euc-kr", "macintosh", "utf-16", "utf-16le", "utf-16be"]


def _dump_without_meta(doc):
    from html5lib import treewalkers
    out, txt, skip = [], [], 0
    for t in treewalkers.getTreeWalker("etree")(doc):
        ty = t["type"]
        if ty in ("Characters", "SpaceCharacters"):
            txt.append(t["data"])
            continue
        if txt:
            out.append(("T", "".join(txt)))
            txt = []
        if ty in ("StartTag", "EmptyTag") and t["name"] == "meta":
            continue
        if ty == "EndTag" and t["name"] == "meta":
            continue
        if ty in ("StartTag", "EmptyTag"):
            out.append(("S", t["name"], tuple(sorted(t["data"].items()))))
        elif ty == "EndTag":
            out.append(("E", t["name"]))
        elif ty == "Comment":
            out.append(("C", t["data"]))
    if txt:
        out.append(("T", "".join(txt)))
    return out


def utf16_witness():
    """known finding: UTF-16 output cannot declare itself"""
    import html5lib
    from html5lib import treewalkers
    from html5lib.serializer import HTMLSerializer
    doc = html5lib.parse("<p>é")
    b = HTMLSerializer(inject_meta_charset=True).render(treewalkers.getTreeWalker("etree")(doc), "utf-16le")
    p = html5lib.HTMLParser()
    again = p.parse(b)
    return _dump_without_meta(again) != _dump_without_meta(doc)


def _codec_mismatch(enc):
    """the serializer encodes with Python's codec of that name, the parser decodes with the WHATWG codec of that label"""
    import codecs
    import webencodings
    return codecs.lookup(enc).name != webencodings.lookup(enc).codec_info.name


def label_witness():
    """known finding: 'big5' is Python's big5 when encoding and big5hkscs (the WHATWG meaning of the label) when decoding"""
    import html5lib
    from html5lib import treewalkers
    from html5lib.serializer import HTMLSerializer
    doc = html5lib.parse("<p>\u044f")
    b = HTMLSerializer(inject_meta_charset=True).render(treewalkers.getTreeWalker("etree")(doc), "big5")
    again = html5lib.HTMLParser().parse(b)
    return _codec_mismatch("big5") and _dump_without_meta(again) != _dump_without_meta(doc)


def run_family():
    import warnings
    import html5lib
    import webencodings
    from html5lib import treewalkers
    from html5lib.serializer import HTMLSerializer
    warnings.simplefilter("ignore")
    bad, known, n = [], 0, 0
    w = treewalkers.getTreeWalker("etree")
    for enc in ENCODINGS:
        for src in DOCS:
            for omit in (True, False):
                n += 1
                doc = html5lib.parse(src)
                b = HTMLSerializer(inject_meta_charset=True, omit_optional_tags=omit).render(w(doc), enc)
                p = html5lib.HTMLParser()
                again = p.parse(b)
                used = p.documentEncoding
                same_tree = _dump_without_meta(again) == _dump_without_meta(doc)
                same_enc = webencodings.lookup(used) == webencodings.lookup(enc)
                if same_tree and same_enc:
                    continue
                if enc.startswith("utf-16"):
                    known += 1          # region of the known finding C15-utf16-cannot-declare-itself
                    continue
                if _codec_mismatch(enc):
                    known += 1          # region of the known finding C15-label-means-two-codecs
                    continue
                bad.append([enc, src[:40], omit, used, b[:80].decode("latin-1")])
    return bad, known, n


@ground("C15", tier="thorough")
def bytes_declare_their_encoding_on_an_enumerated_family():
    bad, known, n = run_family()
    r = rec("C15/bounded/bytes-parse-back-with-the-declared-encoding", not bad, n,
            "for %d documents x %d output encodings x optional-tag omission on/off: the encoded serialization, parsed with no "
            "hints, is decoded with the output encoding (by WHATWG label) and gives the same tree, meta elements aside "
            "(known-finding regions: %d cases: UTF-16, and labels that name different codecs in Python and in the WHATWG registry)" % (len(DOCS), len(ENCODINGS), known), witness=bad[:4] or None, exhaustive=False)
    r["bounded"] = "%d (document, encoding, option) cases" % n
    return r

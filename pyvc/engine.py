"""pyvc: symbolic execution of real Python source into proof obligations.

Path exploration is by re-execution under a decision prefix (each symbolic branch is a
decision; the sibling of every two-way feasible decision is queued).  All state lives on
the Python side and is mutated in place during one run, so the interpreter is an ordinary
recursive AST walker.
"""
import ast
import os
import time
import z3

from . import repo
from .values import (Sym, SStr, SInt, SBool, SBytes, SStrList, Obj, DictV, ListV, SetV, BoundMethod,
                     BuiltinMethod, NativeFn, OpaqueFn, Lambda, Namespace, TypeV, ExcClass, ExcValue,
                     is_strlike, is_intlike, is_boollike, zs, zi, zb, mk_str, mk_int, mk_bool)
from . import regex2smt


class OutOfReach(Exception):
    """The code left the supported subset: never a violation."""


class ScopeInfeasible(Exception):
    """The context of a temporary assumption turned out contradictory: whatever is being evaluated
    under it cannot matter (the assumption is false on this path)."""


class PathEnd(Exception):
    def __init__(self, reason):
        Exception.__init__(self, reason)
        self.reason = reason


class ReturnSig(Exception):
    def __init__(self, value):
        self.value = value


class BreakSig(Exception):
    pass


class ContinueSig(Exception):
    pass


class PyRaise(Exception):
    """The program under analysis raised a Python exception."""
    def __init__(self, name, msg="", site=None):
        Exception.__init__(self, "%s: %s" % (name, msg))
        self.name, self.msg, self.site = name, msg, site


EXC_PARENTS = {
    "KeyError": "LookupError", "IndexError": "LookupError", "LookupError": "Exception",
    "ValueError": "Exception", "UnicodeDecodeError": "UnicodeError", "UnicodeEncodeError": "UnicodeError",
    "UnicodeError": "ValueError", "TypeError": "Exception", "AttributeError": "Exception",
    "StopIteration": "Exception", "AssertionError": "Exception", "RecursionError": "RuntimeError",
    "RuntimeError": "Exception", "NotImplementedError": "RuntimeError", "ZeroDivisionError": "ArithmeticError",
    "ArithmeticError": "Exception", "OverflowError": "ArithmeticError", "Exception": "BaseException",
    "ImportError": "Exception", "ModuleNotFoundError": "ImportError",
    "ParseError": "Exception", "_ReparseException": "Exception", "ReparseException": "Exception",
    "SerializeError": "Exception", "DataLossWarning": "UserWarning", "UserWarning": "Exception",
}


def exc_isa(name, base):
    while name is not None:
        if name == base:
            return True
        name = EXC_PARENTS.get(name)
    return False


class Frame(object):
    def __init__(self, fn, locals_, spec_mode, parent=None):
        self.fn = fn                    # FunctionInfo (or None for lambdas: inherits)
        self.locals = locals_
        self.spec_mode = spec_mode
        self.parent = parent            # lexical parent frame (closures / lambdas)
        self.yielded = None             # list when executing a generator body
        self.module = fn.module if fn is not None else (parent.module if parent else None)
        self.cls = fn.cls if fn is not None else (parent.cls if parent else None)


class Obligation(object):
    def __init__(self, oid, kind, verdict, ms, solver, detail=None, model=None, path=None, tags=()):
        self.oid, self.kind, self.verdict, self.ms, self.solver = oid, kind, verdict, ms, solver
        self.detail, self.model, self.path, self.tags = detail, model, path, tuple(tags)

    def as_dict(self):
        return {"id": self.oid, "kind": self.kind, "verdict": self.verdict, "ms": round(self.ms, 1),
                "solver": self.solver, "detail": self.detail, "model": self.model, "path": self.path,
                "tags": list(self.tags)}


class Budget(object):
    feas_ms = 1500
    prove_ms = 10000
    max_paths = 4000
    max_loop_unroll = 64


class _TempAssume(object):
    """Assume `cond` for the duration of a pure sub-evaluation (solver scope only)."""
    def __init__(self, ctx, cond):
        self.ctx, self.cond = ctx, cond

    def __enter__(self):
        self.n = len(self.ctx.pc)
        self.ctx.temp_depth += 1
        self.saved_model = self.ctx.model_ok
        self.ctx.model_ok = None
        self.ctx.solver.push()
        self.ctx.solver.add(self.cond)
        return self

    def __exit__(self, *a):
        self.ctx.temp_depth -= 1
        self.ctx.solver.pop()
        self.ctx.model_ok = None
        for z in self.ctx.pc[self.n:]:
            self.ctx.solver.add(z)
        return False


def solve_in_new_context(text, timeout_ms):
    c = z3.Context()
    s = z3.Solver(ctx=c)
    s.set("timeout", int(timeout_ms))
    try:
        s.from_string(text)
        r = s.check()
    except z3.Z3Exception:
        return z3.unknown, None
    model = None
    if r == z3.sat:
        try:
            model = s.model().translate(z3.main_ctx())
        except Exception:
            model = None
    # compare by name: CheckSatResult objects of different contexts
    return {"sat": z3.sat, "unsat": z3.unsat}.get(str(r), z3.unknown), model


def split_goal(z, hyps=None, depth=0):
    """Split  A => (B1 and B2 ...)  into separate goals [(hypotheses, conclusion)] (smaller queries)."""
    hyps = list(hyps or [])
    if depth > 6:
        return [(hyps, z)]
    if z3.is_and(z):
        out = []
        for c in z.children():
            out.extend(split_goal(c, hyps, depth + 1))
        return out
    if z3.is_implies(z):
        a, b = z.children()
        return split_goal(b, hyps + [a], depth + 1)
    if z3.is_or(z):
        ch = z.children()
        negs = [c for c in ch if z3.is_not(c)]
        rest = [c for c in ch if not z3.is_not(c)]
        if negs and len(rest) == 1:
            return split_goal(rest[0], hyps + [c.children()[0] for c in negs], depth + 1)
    return [(hyps, z)]


class Context(object):
    """One exploration (all paths) of one verification task."""

    def __init__(self, registry=None, budget=None):
        self.registry = registry or {}
        self.budget = budget or Budget()
        self.solver = None
        self.pc = []
        self.decisions = []
        self.pos = 0
        self.queue = []
        self.fresh_n = 0
        self.obligations = []
        self.path_index = 0
        self.leaves = []                # (name, value, kind) of symbolic inputs, for concretisation
        self.assumed_contracts = set()
        self.modular_sites = {}         # (callee, line, clause) -> [times false outright, times assumable]
        self.inlined = set()
        self.notes = []
        self.current_task = None
        self.solver_ms = 0.0
        self.queries = 0
        self.opaque = {}
        self.depth = 0
        self.temp_depth = 0
        self.star_candidates = {}
        self.names = {}
        self.native_checked = set()
        self.cut_depth = None
        self.cut_prefixes = []
        self.in_sub = 0
        self.assuming = 0
        self.entry_oid = 0
        self.pc_ids = {}              # ast id -> index in pc (scope-aware: truncated together with pc)
        self.pc_kind = []             # parallel to pc
        self.lib_mode = 0             # >0 while a library-fact helper is assuming
        self.model_ok = None          # a model of the current solver state, when one is known
        self.decomps = {}             # term id -> [(a, b)]: registered word equations term == a ++ b
        self.axioms = []

    # ---- solver -----------------------------------------------------------------------
    def new_solver(self):
        s = z3.Solver()
        s.set("timeout", self.budget.feas_ms)
        self.solver = s
        self.pc = []
        self.pc_ids = {}
        self.pc_kind = []
        self.model_ok = None
        for a in self.axioms:
            s.add(a)

    def add_axiom(self, a):
        self.axioms.append(a)
        if self.solver is not None:
            self.solver.add(a)

    def assume(self, cond, kind="path"):
        """kind: 'path' (decisions, contract assumptions), 'lib' (instances of library facts: true but
        often irrelevant), 'cut' (proved intermediate steps and assumed lemma instances)"""
        if cond is True:
            return
        if cond is False:
            raise PathEnd("assumed-false")
        z = cond.z if isinstance(cond, SBool) else cond
        key = z.get_id() if hasattr(z, "get_id") else None
        if key is not None:
            if key in self.pc_ids:
                return                  # already on the path condition (lemma instances repeat a lot)
            self.pc_ids[key] = len(self.pc)
        self.pc.append(z)
        del self.pc_kind[len(self.pc) - 1:]
        self.pc_kind.append(kind if not self.lib_mode else "lib")
        self.solver.add(z)
        if self.model_ok is not None:
            # the cached model stays valid only if it satisfies the new conjunct
            try:
                if not z3.is_true(self.model_ok.eval(z, model_completion=True)):
                    self.model_ok = None
            except z3.Z3Exception:
                self.model_ok = None

    def temp_assume(self, cond):
        return _TempAssume(self, cond)

    def check(self, extra=None, timeout=None):
        t0 = time.time()
        # a fresh, non-incremental solver per query: z3's incremental (push/pop) mode is far weaker on
        # strings (measured: 30 s `unknown` incrementally vs. `unsat` in 10 ms from scratch)
        s = z3.Solver()
        s.set("timeout", timeout or self.budget.feas_ms)
        s.add(self.solver.assertions())
        if extra is not None:
            s.add(extra)
        model = None
        if timeout:
            # obligations: solve the SMT-LIB text in a brand-new z3 context.  z3's search depends on AST
            # ids/ordering of the long-lived context (measured: `unknown` after 40 s in the shared context,
            # `unsat` in 2.6 s for the same text in a new one); a new context makes the verdict a function
            # of the query text only.
            r, model = solve_in_new_context(s.to_smt2(), timeout)
        else:
            r = s.check()
            if r == z3.sat:
                try:
                    model = s.model()
                except z3.Z3Exception:
                    model = None
            elif r == z3.unknown:
                r, model = solve_in_new_context(s.to_smt2(), self.budget.feas_ms)
        if r == z3.unknown and any(k == "lib" for k in self.pc_kind):
            # without the instances of library facts (a subset of the hypotheses: `unsat` stays sound)
            lib_ids = {z.get_id() for z, k in zip(self.pc, self.pc_kind) if k == "lib"}
            s2 = z3.Solver()
            s2.add([a for a in self.solver.assertions() if a.get_id() not in lib_ids])
            if extra is not None:
                s2.add(extra)
            r2, _ = solve_in_new_context(s2.to_smt2(), 3000)
            if r2 == z3.unsat:
                r = z3.unsat
        dt = (time.time() - t0) * 1000
        self.solver_ms += dt
        self.queries += 1
        return str(r), model, dt

    def fresh(self, base, sort="str"):
        self.fresh_n += 1
        name = "%s_f%d" % (base, self.fresh_n)
        if sort == "str":
            return SStr(z3.String(name))
        if sort == "int":
            return SInt(z3.Int(name))
        if sort == "bool":
            return SBool(z3.Bool(name))
        if sort == "strlist":
            return SStrList(z3.Const(name, z3.SeqSort(z3.StringSort())))
        raise ValueError(sort)

    # ---- decisions --------------------------------------------------------------------
    def branch(self, cond):
        """cond: python bool or z3 Bool / SBool. Returns python bool; records the decision."""
        if isinstance(cond, SBool):
            cond = cond.z
        if isinstance(cond, bool):
            return cond
        cond = z3.simplify(cond)
        if z3.is_true(cond):
            return True
        if z3.is_false(cond):
            return False
        if self.pos < len(self.decisions):
            d = self.decisions[self.pos]
            self.pos += 1
            if isinstance(d, tuple):
                return d[1]          # forced decision: entailed by the solver state, nothing to record
            self.assume(cond if d else z3.Not(cond))
            return d
        if self.cut_depth is not None and self.pos >= self.cut_depth and not self.temp_depth and not self.in_sub:
            self.cut_prefixes.append(list(self.decisions[:self.pos]))
            raise PathEnd("cut")
        t_ok = f_ok = None
        mt = mf = None
        if self.model_ok is not None:
            try:
                val = self.model_ok.eval(cond, model_completion=True)
                if z3.is_true(val):
                    t_ok, mt = True, self.model_ok
                elif z3.is_false(val):
                    f_ok, mf = True, self.model_ok
            except z3.Z3Exception:
                pass
        if t_ok is None:
            rt, mt, _ = self.check(cond)
            if rt == "unknown":
                rt, mt, _ = self.check(cond, timeout=min(self.budget.prove_ms, 12000))     # escalate before guessing
            t_ok = rt != "unsat"
        if f_ok is None:
            rf, mf, _ = self.check(z3.Not(cond))
            if rf == "unknown":
                rf, mf, _ = self.check(z3.Not(cond), timeout=min(self.budget.prove_ms, 12000))
            f_ok = rf != "unsat"
        self.branch_models = (mt, mf)
        if not t_ok and not f_ok:
            if self.temp_depth:
                raise ScopeInfeasible()
            raise PathEnd("infeasible")
        if t_ok and f_ok:
            self.queue.append(self.decisions[:self.pos] + [False])
            d = True
            self.decisions.append(d)
            self.pos += 1
            self.model_ok = mt if not self.temp_depth else None
            self.assume(cond if d else z3.Not(cond))
            return d
        # only one side is feasible: the outcome is entailed by the current solver state (which may
        # include a temporary assumption), so it must NOT be added to the path condition
        d = t_ok
        self.decisions.append(("forced", d))
        self.pos += 1
        return d

    def choose(self, n):
        """Nondeterministic choice among n alternatives (all explored)."""
        for i in range(n - 1):
            if self.pos < len(self.decisions):
                d = self.decisions[self.pos]
                self.pos += 1
            else:
                if self.cut_depth is not None and self.pos >= self.cut_depth and not self.temp_depth and not self.in_sub:
                    self.cut_prefixes.append(list(self.decisions[:self.pos]))
                    raise PathEnd("cut")
                self.queue.append(self.decisions[:self.pos] + [False])
                d = True
                self.decisions.append(d)
                self.pos += 1
            if d:
                return i
        return n - 1

    # ---- obligations ------------------------------------------------------------------
    def oblige(self, oid, kind, cond, detail=None, tags=(), assume_after=True):
        """Prove pc => cond.  Records the verdict; continues under the assumption cond."""
        if isinstance(cond, SBool):
            cond = cond.z
        if isinstance(cond, bool):
            zc = z3.BoolVal(cond)
        else:
            zc = cond
        t0 = time.time()
        if cond is True:
            verdict, model, solver = "proved", None, "trivial"
        else:
            verdict, model, solver = "proved", None, "z3"
            for hyps, goal in split_goal(zc):
                if os.environ.get("H5V_TRACE_GOALS"):
                    print("GOAL", oid.split("/")[-1], round((time.time() - t0) * 1000), str(goal)[:300].replace("\n", " "), flush=True)
                neg = z3.And(*(hyps + [z3.Not(goal)])) if hyps else z3.Not(goal)
                # staged: fewer hypotheses first (sound: a proof from a subset is a proof) -- irrelevant
                # library facts are what makes the string solver wander
                r = None
                if not self.temp_depth and len(self.pc) > 12:
                    for kinds, ms in ((("cut",), 2500), (("cut", "path"), 6000)):
                        sub = [z for z, k in zip(self.pc, self.pc_kind) if k in kinds]
                        if len(sub) == len(self.pc):
                            break
                        t1 = time.time()
                        ss = z3.Solver()
                        ss.add(self.axioms)
                        ss.add(sub)
                        ss.add(neg)
                        rr, _ = solve_in_new_context(ss.to_smt2(), ms)
                        self.solver_ms += (time.time() - t1) * 1000
                        self.queries += 1
                        if rr == z3.unsat:
                            r = "unsat"
                            break
                if r == "unsat":
                    continue
                r, m, _ = self.check(neg, timeout=self.budget.prove_ms)
                if r == "unsat":
                    continue
                if r == "sat":
                    verdict, model = "failed", self.concretise(m)
                    break
                r2 = self.try_cvc5(neg)
                if r2 == "unsat":
                    solver = "z3+cvc5"
                    continue
                verdict, model = "unknown", None
                dump = os.environ.get("H5V_DUMP")
                if dump:
                    os.makedirs(dump, exist_ok=True)
                    sd = z3.Solver()
                    for a in self.solver.assertions():
                        sd.add(a)
                    sd.add(neg)
                    with open(os.path.join(dump, "unknown-%d-%d.smt2" % (os.getpid(), len(self.obligations))), "w") as fh:
                        fh.write("; %s\n(set-logic ALL)\n" % oid + sd.to_smt2())
                break
        ms = (time.time() - t0) * 1000
        self.obligations.append(Obligation(oid, kind, verdict, ms, solver, detail, model,
                                           self.path_index, tags))
        if assume_after and verdict != "proved":
            # continuing under an unproved assumption would hide nothing (it is recorded),
            # but downstream obligations would be conditional; cut the path instead.
            raise PathEnd("obligation-" + verdict)
        if assume_after and cond is not True:
            self.assume(zc, kind="cut")          # a proved intermediate step is available to what follows (cut rule)
        return verdict

    def try_cvc5(self, extra):
        from . import solve
        # cvc5 decides what z3 left open; it gets at least a minute so that its verdict does not depend on machine load
        return solve.cvc5_check(self.solver, extra, max(self.budget.prove_ms, 60000))

    def concretise(self, model):
        from .concretise import model_inputs
        try:
            return model_inputs(self, model)
        except Exception as e:       # pragma: no cover
            return {"__error__": repr(e)}

    def record_raise(self, oid, exc, detail, tags=()):
        """The current path ends in an uncaught exception: a failed safety obligation with the
        path condition's model as the witness."""
        r, m, dt = self.check(None, timeout=self.budget.prove_ms)
        if r == "unsat":
            return
        verdict = "failed" if r == "sat" else "unknown"
        self.obligations.append(Obligation(oid, "safety", verdict, dt, "z3", detail,
                                           self.concretise(m) if m is not None else None,
                                           self.path_index, tags))

    # ---- exploration ------------------------------------------------------------------
    def explore(self, thunk, initial=None, cut_depth=None):
        """Run thunk() under every decision sequence (optionally only below the given prefixes; with
        cut_depth, stop at the first *new* decision at that depth and collect the prefixes reached)."""
        self.queue = [list(p) for p in initial] if initial else [[]]
        self.cut_depth = cut_depth
        self.cut_prefixes = []
        self.path_index = 0
        n = 0
        while self.queue:
            prefix = self.queue.pop()
            n += 1
            if n > self.budget.max_paths:
                raise OutOfReach("more than %d paths" % self.budget.max_paths)
            self.decisions = list(prefix)
            self.pos = 0
            self.fresh_n = 0
            self.leaves = []
            self.star_candidates = {}
            self.names = {}
            self.decomps = {}
            self.new_solver()
            self.path_index = n
            try:
                thunk()
            except PathEnd:
                pass
        return n

    def sub_explore(self, thunk):
        """Explore a *pure* computation from the current state under all its own decisions.
        Returns [(extra_pc, value)].  The surrounding path's decisions are untouched."""
        saved = (self.decisions, self.pos, self.queue)
        self.in_sub += 1
        results = []
        q = [[]]
        base_len = len(self.pc)
        runs = 0
        try:
            while q:
                prefix = q.pop()
                runs += 1
                if runs > 512:
                    raise OutOfReach("sub-exploration too large")
                self.decisions = list(prefix)
                self.pos = 0
                self.queue = []
                self.solver.push()
                if runs > 1:
                    self.model_ok = None      # the first run starts from the unchanged path condition: keep its model
                try:
                    v = thunk()
                    results.append((list(self.pc[base_len:]), v))
                except PathEnd:
                    pass
                finally:
                    self.solver.pop()
                    self.model_ok = None
                    del self.pc[base_len:]
                    self.pc_ids = {k: i for k, i in self.pc_ids.items() if i < base_len}
                    for d in self.queue:
                        q.append(d)
        finally:
            self.decisions, self.pos, self.queue = saved
            self.in_sub -= 1
        return results


# ---------------------------------------------------------------------- theory helpers
def _ctx_method(f):
    setattr(Context, f.__name__, f)
    return f


def _lib(f):
    """facts assumed inside are instances of library facts (kind 'lib')"""
    import functools

    @functools.wraps(f)
    def g(self, *a, **k):
        self.lib_mode += 1
        try:
            return f(self, *a, **k)
        finally:
            self.lib_mode -= 1
    return g


@_ctx_method
def word_equation(self, whole, a, b):
    """assume  whole == a ++ b  and remember it, so that later slices of `whole` at |a| are taken structurally"""
    self.assume(whole == z3.Concat(a, b))
    self.decomps.setdefault(whole.get_id(), []).append((a, b))


@_ctx_method
@_lib
def end_decomp(self, z, k):
    """z == init ++ tail with |tail| == k (caller has shown |z| >= k): one shared pair of fresh
    variables per (term, k), so z[:-k], z[-k:] and z[-1] are the same terms wherever they are written"""
    key = ("end", z.get_id(), k)
    if key not in self.decomps:
        init = self.fresh("init").z
        tail = self.fresh("tail").z
        self.word_equation(z, init, tail)
        self.assume(z3.Length(tail) == k)
        self.assume(z3.Length(init) == z3.Length(z) - k)
        self.decomps[key] = (init, tail)
    return self.decomps[key]


@_ctx_method
def opaque_fn(self, name, argsorts, ressort):
    key = (name, tuple(str(s) for s in argsorts), str(ressort))
    if key not in self.opaque:
        self.opaque[key] = z3.Function(name, *(list(argsorts) + [ressort]))
    return self.opaque[key]


@_ctx_method
def str_fn(self, name, z):
    f = self.opaque_fn(name, [z3.StringSort()], z3.StringSort())
    return f(z)


@_ctx_method
def chr_fn(self, zi_):
    return z3.StrFromCode(zi_)


@_ctx_method
def joined(self, seq):
    """"".join(list) for a symbolic list of strings: opaque homomorphism + instances."""
    f = self.opaque_fn("joined", [z3.SeqSort(z3.StringSort())], z3.StringSort())
    return f(seq)


@_ctx_method
@_lib
def joined_facts(self, prefix, x):
    """joined(prefix ++ [x]) == joined(prefix) ++ x; joined([]) == ''."""
    f = self.opaque_fn("joined", [z3.SeqSort(z3.StringSort())], z3.StringSort())
    e = z3.Empty(z3.SeqSort(z3.StringSort()))
    self.assume(f(e) == z3.StringVal(""))
    self.assume(f(z3.Concat(prefix, z3.Unit(x))) == z3.Concat(f(prefix), x))


@_ctx_method
@_lib
def translate(self, z, table):
    if isinstance(table, dict):
        key = tuple(sorted((k, v) for k, v in table.items()))
        lower = tuple((c, c + 32) for c in range(65, 91))
        name = "ascii_lower" if key == lower else "translate_%x" % (hash(key) & 0xffffffff)
        f = self.opaque_fn(name, [z3.StringSort()], z3.StringSort())
        r = f(z)
        if all(isinstance(v, int) for v in table.values()):
            self.assume(z3.Length(r) == z3.Length(z))
        return r
    raise OutOfReach("translate with non-constant table")


@_ctx_method
@_lib
def replace_all(self, z, old, new):
    """str.replace(old, new): opaque, with instances of facts that hold for every str.replace"""
    f = self.opaque_fn("replace_all", [z3.StringSort()] * 3, z3.StringSort())
    r = f(z, old, new)
    self.assume(z3.Implies(z3.Not(z3.Contains(z, old)), r == z))
    if z3.is_string_value(old) and z3.is_string_value(new):
        from .values import _pystr
        o, n = _pystr(old), _pystr(new)
        if len(o) == 1 and o not in n:
            self.assume(z3.Not(z3.Contains(r, old)))
        # single characters that occur neither in the subject nor in the replacement do not appear
        for ch in "<>\"'":
            if ch != o and ch not in n:
                self.assume(z3.Implies(z3.Not(z3.Contains(z, z3.StringVal(ch))), z3.Not(z3.Contains(r, z3.StringVal(ch)))))
        if o != "" and n != "":
            self.assume((z3.Length(z) == 0) == (z3.Length(r) == 0))
        if len(n) <= len(o):
            self.assume(z3.Length(r) <= z3.Length(z))
    return r


@_ctx_method
@_lib
def count_fn(self, z, sub):
    f = self.opaque_fn("str_count", [z3.StringSort()] * 2, z3.IntSort())
    r = f(z, sub)
    self.assume(r >= 0)
    self.assume(z3.Implies(z3.Not(z3.Contains(z, sub)), r == 0))
    self.assume(z3.Implies(z3.Contains(z, sub), r >= 1))
    return r


@_ctx_method
@_lib
def rfind_fn(self, z, sub):
    """str.rfind: opaque (portable across solvers) with its defining facts"""
    f = self.opaque_fn("str_rfind", [z3.StringSort()] * 2, z3.IntSort())
    r = f(z, sub)
    n = z3.Length(z)
    k = z3.Length(sub)
    self.assume(r >= -1)
    self.assume((r == -1) == z3.Not(z3.Contains(z, sub)))
    self.assume(z3.Implies(r >= 0, z3.And(r + k <= n, z3.SubString(z, r, k) == sub,
                                           z3.Not(z3.Contains(z3.SubString(z, r + 1, n - r - 1), sub)))))
    return r


@_ctx_method
def str_pred(self, name, z):
    f = self.opaque_fn("str_" + name, [z3.StringSort()], z3.BoolSort())
    return f(z)


@_ctx_method
@_lib
def strip_fn(self, name, z, chars):
    from . import regex2smt
    if chars is None:
        cls = regex2smt._union([regex2smt._range(lo, hi) for lo, hi in regex2smt._category_ranges("CATEGORY_SPACE")])
        ncls = regex2smt._union([regex2smt._range(lo, hi) for lo, hi in regex2smt._category_ranges("CATEGORY_NOT_SPACE")])
    else:
        if not isinstance(chars, str):
            raise OutOfReach("strip with symbolic character set")
        cls = regex2smt.charset_regex(chars)
        ncls = regex2smt.not_charset_regex(chars)
    any_ = z3.Star(z3.AllChar(z3.ReSort(z3.StringSort())))
    cur = z
    if name in ("strip", "lstrip"):
        l = self.fresh("lstrip_l").z
        m = self.fresh("lstrip_m").z
        self.word_equation(cur, l, m)
        self.assume(z3.Length(cur) == z3.Length(l) + z3.Length(m))
        self.assume(z3.SubString(cur, 0, z3.Length(l)) == l)          # instances of (l++m)[..] facts
        self.assume(z3.SubString(cur, 0, z3.Length(cur) - z3.Length(m)) == l)
        self.assume(z3.InRe(l, z3.Star(cls)))
        self.assume(z3.InRe(m, z3.Union(z3.Re(z3.StringVal("")), z3.Concat(ncls, any_))))
        self.assume(z3.Or(z3.Length(m) == 0, z3.InRe(z3.SubString(m, 0, 1), ncls)))
        if chars == "0" and name == "lstrip":
            self.leading_zero_facts(cur, l, m)
        seenR = set()
        for R in reversed(self.star_candidates.get(str(cur), [])):
            if str(R) in seenR or len(seenR) >= 4:
                continue
            seenR.add(str(R))
            # substrings of a string all of whose characters are in a class are in that class too
            self.assume(z3.Implies(z3.InRe(cur, R), z3.And(z3.InRe(l, R), z3.InRe(m, R))))
        cur = m
    if name in ("strip", "rstrip"):
        m = self.fresh("rstrip_m").z
        r = self.fresh("rstrip_r").z
        self.word_equation(cur, m, r)
        self.assume(z3.Length(cur) == z3.Length(m) + z3.Length(r))
        self.assume(z3.SubString(cur, z3.Length(m), z3.Length(cur) - z3.Length(m)) == r)
        self.assume(z3.InRe(r, z3.Star(cls)))
        self.assume(z3.InRe(m, z3.Union(z3.Re(z3.StringVal("")), z3.Concat(any_, ncls))))
        self.assume(z3.Or(z3.Length(m) == 0, z3.InRe(z3.SubString(m, z3.Length(m) - 1, 1), ncls)))
        self.assume(z3.Or(z3.Length(m) == 0, z3.SubString(m, 0, 1) == z3.SubString(cur, 0, 1)))
        cur = m
    return cur


@_ctx_method
def int_parse(self, I, z, base):
    from . import regex2smt
    if base == 10:
        digits = regex2smt.charset_regex("0123456789")
    elif base == 16:
        digits = regex2smt.charset_regex("0123456789abcdefABCDEF")
    else:
        raise OutOfReach("int() with base %r" % (base,))
    plain = z3.InRe(z, z3.Plus(digits))
    r = self.check(z3.Not(plain), timeout=self.budget.prove_ms)[0]
    if r != "unsat" and self.try_cvc5(z3.Not(plain)) != "unsat":
        if not self.branch(plain):
            raise OutOfReach("int() of a string not known to consist of plain digits")
    else:
        self.assume(plain)
    if base == 10:
        # CPython >= 3.11: ValueError beyond sys.get_int_max_str_digits() (4300) decimal digits
        if not self.branch(z3.Length(z) <= 4300):
            raise PyRaise("ValueError", "Exceeds the limit (4300 digits) for integer string conversion")
    return mk_int(self.int_value(z, base))


@_ctx_method
@_lib
def int_value(self, z, base):
    """Mathematical value of a non-empty digit string in the given base: an opaque function with
    instances of true arithmetic facts (no digit limit: that is int()'s precondition, not the value's)."""
    f = self.opaque_fn("intval%d" % base, [z3.StringSort()], z3.IntSort())
    r = f(z)
    self.assume(r >= 0)
    zero = z3.StringVal("0")
    self.assume(z3.Implies(z == zero, r == 0))
    # eight or more digits without a leading zero: at least 10**7 (16**7), beyond every code point
    self.assume(z3.Implies(z3.And(z3.Length(z) >= 8, z3.SubString(z, 0, 1) != zero), r > 0x10FFFF))
    return r


@_ctx_method
@_lib
def leading_zero_facts(self, whole, l, m):
    """whole == l ++ m with l in '0'*: the value does not depend on leading zeros."""
    for base in (10, 16):
        f = self.opaque_fn("intval%d" % base, [z3.StringSort()], z3.IntSort())
        self.assume(f(whole) == z3.If(z3.Length(m) == 0, z3.IntVal(0), f(m)))
        self.assume(f(m) >= 0)
        # m has no leading zero: eight or more digits are beyond every code point
        self.assume(z3.Implies(z3.Length(m) >= 8, f(m) > 0x10FFFF))

"""Translate a Python `re` pattern (parsed by CPython's own re._parser) into a z3 regex.

Supported: literals, classes, ranges, negated classes, categories (\\s \\d \\w with their
real Unicode-aware code-point sets up to U+2FFFF computed from the running interpreter),
`* + ? {m,n}` greedy or lazy (language-equal), alternation, (non-)capturing groups,
`^`/`$`/`\\A`/`\\Z` at the ends of the pattern (returned as flags).  Anything else raises
Unsupported, which makes the enclosing function "out of reach", never a violation.
"""
import re
import sys
import z3

try:
    import re._parser as sre_parse
    import re._constants as sre_c
except ImportError:       # pragma: no cover
    import sre_parse
    import sre_constants as sre_c

MAXCP = 0x2FFFF


class Unsupported(Exception):
    pass


_cat_cache = {}


def _category_ranges(cat, ascii_only=False):
    key = (str(cat), ascii_only)
    if key in _cat_cache:
        return _cat_cache[key]
    name = str(cat)
    neg = "NOT_" in name
    base = name.replace("NOT_", "")
    pat = {"CATEGORY_SPACE": r"\s", "CATEGORY_DIGIT": r"\d", "CATEGORY_WORD": r"\w"}.get(base)
    if pat is None:
        raise Unsupported("category " + name)
    rx = re.compile(pat, re.ASCII if ascii_only else 0)
    ranges = []
    start = None
    for cp in range(0, MAXCP + 1):
        try:
            m = rx.match(chr(cp)) is not None
        except Exception:
            m = False
        if neg:
            m = not m
        if m and start is None:
            start = cp
        elif not m and start is not None:
            ranges.append((start, cp - 1))
            start = None
    if start is not None:
        ranges.append((start, MAXCP))
    _cat_cache[key] = ranges
    return ranges


def _chr(cp):
    return z3.StringVal(chr(cp)) if cp <= MAXCP else None


def _range(lo, hi):
    hi = min(hi, MAXCP)
    if lo > hi:
        return None
    if lo == hi:
        return z3.Re(z3.StringVal(chr(lo)))
    return z3.Range(z3.StringVal(chr(lo)), z3.StringVal(chr(hi)))


def _union(rs):
    rs = [r for r in rs if r is not None]
    if not rs:
        return z3.Empty(z3.ReSort(z3.StringSort()))
    if len(rs) == 1:
        return rs[0]
    return z3.Union(*rs)


ANYCHAR = None


def anychar():
    return z3.AllChar(z3.ReSort(z3.StringSort()))


def _set_ranges(items, flags):
    """list of (lo,hi) for a character class body."""
    out = []
    ascii_only = bool(flags & re.ASCII)
    for op, av in items:
        if op is sre_c.LITERAL:
            out.append((av, av))
        elif op is sre_c.RANGE:
            out.append(av)
        elif op is sre_c.CATEGORY:
            out.extend(_category_ranges(av, ascii_only))
        elif op is sre_c.NEGATE:
            pass
        else:
            raise Unsupported("class item %s" % (op,))
    return out


def _complement_ranges(ranges):
    ranges = sorted(ranges)
    out = []
    cur = 0
    for lo, hi in ranges:
        if lo > cur:
            out.append((cur, lo - 1))
        cur = max(cur, hi + 1)
    if cur <= MAXCP:
        out.append((cur, MAXCP))
    return out


def _icase_ranges(ranges):
    out = list(ranges)
    for lo, hi in ranges:
        for cp in range(lo, min(hi, 0x24F) + 1):     # Latin only: enough for the patterns in scope
            c = chr(cp)
            for d in (c.lower(), c.upper()):
                if len(d) == 1:
                    out.append((ord(d), ord(d)))
    return out


def class_ranges(items, flags=0):
    neg = any(op is sre_c.NEGATE for op, _ in items)
    r = _set_ranges(items, flags)
    if flags & re.IGNORECASE:
        r = _icase_ranges(r)
    if neg:
        r = _complement_ranges(r)
    out = []
    for lo, hi in sorted(set(r)):
        if out and out[-1][1] >= lo - 1:
            out[-1] = (out[-1][0], max(out[-1][1], hi))
        else:
            out.append((lo, hi))
    return out


def _tr(seq, flags):
    parts = []
    for op, av in seq:
        parts.append(_tr1(op, av, flags))
    if not parts:
        return z3.Re(z3.StringVal(""))
    if len(parts) == 1:
        return parts[0]
    return z3.Concat(*parts)


def _tr1(op, av, flags):
    if op is sre_c.LITERAL:
        if flags & re.IGNORECASE:
            return _union([_range(lo, hi) for lo, hi in _icase_ranges([(av, av)])])
        return z3.Re(z3.StringVal(chr(av)))
    if op is sre_c.NOT_LITERAL:
        return _union([_range(lo, hi) for lo, hi in _complement_ranges([(av, av)])])
    if op is sre_c.ANY:
        if flags & re.DOTALL:
            return anychar()
        return _union([_range(lo, hi) for lo, hi in _complement_ranges([(10, 10)])])
    if op is sre_c.IN:
        return _union([_range(lo, hi) for lo, hi in class_ranges(av, flags)])
    if op is sre_c.CATEGORY:
        return _union([_range(lo, hi) for lo, hi in _category_ranges(av, bool(flags & re.ASCII))])
    if op in (sre_c.MAX_REPEAT, sre_c.MIN_REPEAT):
        lo, hi, sub = av
        r = _tr(sub, flags)
        if hi == sre_c.MAXREPEAT:
            if lo == 0:
                return z3.Star(r)
            if lo == 1:
                return z3.Plus(r)
            return z3.Concat(z3.Loop(r, lo, lo), z3.Star(r))
        if lo == 0 and hi == 1:
            return z3.Option(r)
        return z3.Loop(r, lo, hi)
    if op is sre_c.SUBPATTERN:
        group, add_flags, del_flags, sub = av
        return _tr(sub, (flags | add_flags) & ~del_flags)
    if op is sre_c.BRANCH:
        _, alts = av
        return _union([_tr(a, flags) for a in alts])
    raise Unsupported("regex op %s" % (op,))


def translate(pattern, flags=0):
    """-> (z3 regex for the body, anchored_start, anchored_end).  `$` is treated as end-of-string
    (callers must account for the optional trailing newline themselves if they rely on it)."""
    if isinstance(pattern, bytes):
        pattern = pattern.decode("latin-1")
        flags |= re.ASCII
    parsed = sre_parse.parse(pattern, flags)
    flags = parsed.state.flags if hasattr(parsed, "state") else flags
    seq = list(parsed)
    a_start = a_end = False
    if seq and seq[0][0] is sre_c.AT and seq[0][1] in (sre_c.AT_BEGINNING, sre_c.AT_BEGINNING_STRING):
        a_start = True
        seq = seq[1:]
    dollar = False
    if seq and seq[-1][0] is sre_c.AT and seq[-1][1] in (sre_c.AT_END, sre_c.AT_END_STRING):
        a_end = True
        dollar = seq[-1][1] is sre_c.AT_END
        seq = seq[:-1]
    for op, av in seq:
        if op is sre_c.AT:
            raise Unsupported("inner anchor")
    return _tr(seq, flags), a_start, a_end, dollar


def full_language(pattern, flags=0):
    """regex for `re.fullmatch`-style membership (anchors ignored at the ends)."""
    r, _, _, _ = translate(pattern, flags)
    return r


def search_language(pattern, flags=0):
    """regex L such that re.search(pattern, s) is not None  <=>  s in L."""
    r, a_start, a_end, dollar = translate(pattern, flags)
    parts = []
    if not a_start:
        parts.append(z3.Star(anychar()))
    parts.append(r)
    if a_end:
        if dollar:
            parts.append(z3.Option(z3.Re(z3.StringVal("\n"))))
    else:
        parts.append(z3.Star(anychar()))
    return z3.Concat(*parts) if len(parts) > 1 else parts[0]


def match_language(pattern, flags=0):
    """regex L such that re.match(pattern, s) is not None  <=>  s in L."""
    r, a_start, a_end, dollar = translate(pattern, flags)
    parts = [r]
    if a_end:
        if dollar:
            parts.append(z3.Option(z3.Re(z3.StringVal("\n"))))
    else:
        parts.append(z3.Star(anychar()))
    return z3.Concat(*parts) if len(parts) > 1 else parts[0]


def charset_regex(chars):
    """regex matching exactly one character out of the iterable of 1-char strings."""
    cps = sorted(set(ord(c) for c in chars))
    ranges = []
    for cp in cps:
        if ranges and ranges[-1][1] == cp - 1:
            ranges[-1] = (ranges[-1][0], cp)
        else:
            ranges.append((cp, cp))
    return _union([_range(lo, hi) for lo, hi in ranges])


def not_charset_regex(chars):
    cps = sorted(set(ord(c) for c in chars))
    return _union([_range(lo, hi) for lo, hi in _complement_ranges([(c, c) for c in cps])])

"""Builders of symbolic inputs (`S` in the side-cars' native `inputs` / `result` / `havoc` code)."""
import z3

from . import repo
from .repo import ClassInfo
from .values import (SRec, Sym, SStr, SInt, SBool, SBytes, SStrList, Obj, DictV, ListV, SetV, mk_bool, mk_int,
                     mk_str, zs, zi)
from .engine import PathEnd, OutOfReach
from . import regex2smt
from . import builtins_ as B

TOKEN_TYPES = ("Doctype", "Characters", "SpaceCharacters", "StartTag", "EndTag", "EmptyTag", "Comment",
               "Entity", "SerializeError")


class Factory(object):
    def __init__(self, ctx, interp=None):
        self.ctx = ctx
        self.I = interp
        self.z3 = z3
        self.names = {}

    def _name(self, name):
        # unique, deterministic names (same across re-executions of the same prefix)
        # the counter lives in the context: several factories (one per modular call) share one path
        name = "".join(ch if (ch.isalnum() or ch in "_.") else "_" for ch in name)   # SMT-LIB simple symbols only
        names = self.ctx.names
        n = names.get(name, 0)
        names[name] = n + 1
        return name if n == 0 else "%s.%d" % (name, n)

    # ---- scalars
    def str(self, name, nonempty=False, maxlen=None):
        nm = self._name(name)
        v = SStr(z3.String(nm))
        self.ctx.leaves.append((nm, v))
        if nonempty:
            self.ctx.assume(z3.Length(v.z) > 0)
        if maxlen is not None:
            self.ctx.assume(z3.Length(v.z) <= maxlen)
        return v

    def char(self, name):
        v = self.str(name)
        v.nonempty = True
        self.ctx.assume(z3.Length(v.z) == 1)
        return v

    def int(self, name, lo=None, hi=None):
        nm = self._name(name)
        v = SInt(z3.Int(nm))
        self.ctx.leaves.append((nm, v))
        if lo is not None:
            self.ctx.assume(v.z >= lo)
        if hi is not None:
            self.ctx.assume(v.z <= hi)
        return v

    def bool(self, name):
        nm = self._name(name)
        v = SBool(z3.Bool(nm))
        self.ctx.leaves.append((nm, v))
        return v

    def bytes(self, name):
        nm = self._name(name)
        z = z3.String(nm)
        v = SBytes(z)
        self.ctx.leaves.append((nm, v))
        self.ctx.assume(z3.InRe(z, z3.Star(z3.Range(z3.StringVal("\x00"), z3.StringVal("\xff")))))
        return v

    def strlist(self, name):
        nm = self._name(name)
        v = SStrList(z3.Const(nm, z3.SeqSort(z3.StringSort())))
        self.ctx.leaves.append((nm, v))
        return v

    def choice(self, n):
        return self.ctx.choose(n)

    def one_of(self, *alts):
        """Fork over the given alternatives (thunks or values)."""
        i = self.ctx.choose(len(alts))
        a = alts[i]
        return a() if callable(a) else a

    def str_in(self, name, values):
        v = self.str(name)
        self.ctx.assume(z3.Or(*[v.z == z3.StringVal(x) for x in values]))
        return v

    def assume(self, cond):
        if isinstance(cond, SBool):
            cond = cond.z
        self.ctx.assume(cond)

    def in_re(self, v, pattern, flags=0):
        self.ctx.assume(z3.InRe(zs(v), regex2smt.full_language(pattern, flags)))

    # ---- structures
    def obj(self, cls, **fields):
        if isinstance(cls, str) and (cls.startswith("html5lib.") or cls.startswith("spec.")):
            ci = repo.find_function(cls)
            if not isinstance(ci, ClassInfo):
                raise OutOfReach("not a class: " + cls)
            cls = ci
        return Obj(cls, fields)

    def abstract(self, clsname, fields=None, **methods):
        """Object of a class that is not under analysis; methods are native callables(I, args, kwargs)."""
        o = Obj(clsname, fields or {})
        o.methods = dict(methods)
        return o

    def anylist(self, name, tail=(), cls="list"):
        """list whose first elements (any number, any values) are not inspected, then `tail`."""
        nm = self._name(name)
        any_sort = z3.DeclareSort("Any")
        l = ListV(list(tail), cls=cls, prefix=z3.Const(nm, z3.SeqSort(any_sort)))
        return l

    def dict(self, entries=None, **kw):
        d = DictV(entries or {})
        for k, v in kw.items():
            d.entries[k] = [v, True]
        return d

    def list(self, items=(), cls="list"):
        return ListV(list(items), cls=cls)

    def charlist(self, name, tail=()):
        """list of one-character strings of arbitrary length (represented exactly by their concatenation),
        followed by the given concrete tail."""
        nm = self._name(name)
        z = z3.String(nm)
        self.ctx.leaves.append((nm, SStr(z)))
        return ListV(list(tail), prefix=z)

    def nodelist(self, name, tail=()):
        """stack of tree nodes of arbitrary length (identities; name/namespace are functions of the identity)"""
        nm = self._name(name)
        return ListV(list(tail), prefix=z3.Const(nm, z3.SeqSort(z3.IntSort())))

    def symlist(self, name, tail=()):
        """list of strings of arbitrary length followed by the given concrete tail."""
        p = self.strlist(name)
        return ListV(list(tail), prefix=p.z)

    def token(self, name, types=TOKEN_TYPES, data_attrs=False):
        """A tree-walker token with symbolic type: keys present as the walker produces them."""
        t = self.str_in(name + ".type", types)
        d = DictV()
        d.entries["type"] = [t, True]
        is_tag = z3.Or(*[t.z == z3.StringVal(x) for x in ("StartTag", "EndTag", "EmptyTag")]) if any(
            x in types for x in ("StartTag", "EndTag", "EmptyTag")) else False
        has_name = z3.Or(*[t.z == z3.StringVal(x) for x in ("StartTag", "EndTag", "EmptyTag", "Doctype", "Entity")])
        has_data = z3.Or(*[t.z == z3.StringVal(x) for x in ("StartTag", "EmptyTag", "Characters", "SpaceCharacters",
                                                           "Comment", "SerializeError")])
        d.entries["name"] = [self.str(name + ".name"), z3.simplify(has_name)]
        d.entries["namespace"] = [self.one_of(None, lambda: self.str(name + ".namespace")), z3.simplify(is_tag) if is_tag is not False else False]
        return d, t

    def rec(self, kind, zid, **attrs):
        return SRec(zid, kind, attrs)

    def anyset(self, name, pair_keys=False):
        """a set about which nothing is known but membership (custom allow-lists)"""
        return self.strmap(name, pair_keys=pair_keys)

    def symdict(self, pairs):
        """dict with the given (symbolic key, value) pairs, keys assumed pairwise distinct (bounded clauses)"""
        d = DictV()
        d.sym_items = [[k, v] for k, v in pairs]
        from . import builtins_ as B
        for i in range(len(pairs)):
            for j in range(i):
                e = self.I.eq(pairs[i][0], pairs[j][0])
                self.assume(B.z_not(e) if not isinstance(e, bool) else (not e))
        return d

    def strmap(self, name, pair_keys=False, forall=None):
        """dict with arbitrarily many symbolic entries (string keys, or (ns, local) pairs); `forall(k, v)`
        gives a z3 condition assumed of every entry."""
        from .absmap import AbstractMap
        d = DictV()
        d.abstract = AbstractMap(self.ctx, self._name(name), pair_keys)
        if forall is not None:
            d.abstract.assume_forall(forall)
        return d

    def charset(self, chars):
        return regex2smt.charset_regex(chars)

    def not_charset(self, chars):
        return regex2smt.not_charset_regex(chars)

    def zs(self, v):
        return zs(v)

    def method(self, obj, name):
        """bound method value obj.name (e.g. the tokenizer's state)"""
        from .values import BoundMethod
        return BoundMethod(obj, obj.cls.find_method(name))

    def abstract_trie(self):
        from .triespec import abstract_trie
        return abstract_trie(self)

    def I_module(self, name):
        return repo.get_module(name)

    def ctx_fresh(self, base, sort="str"):
        return self.ctx.fresh(base, sort)

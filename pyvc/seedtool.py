"""Seeded property-breaking changes: import (confirm) and test them against the checks.

  python3-vt -m pyvc.seedtool import <srcdir> <PROP> <k> <id>     confirm patch<k>/demo<k> from a sub-agent's worktree
                                                                   and store under /verif/seeded/<id>/
  python3-vt -m pyvc.seedtool test [id ...]                        apply each stored patch to a scratch worktree of
                                                                   /repo HEAD, run bin/check <prop>, report exit code
Scratch worktrees live under /tmp and are removed immediately.
"""
import json
import os
import shutil
import subprocess
import sys
import time

VERIF = os.path.dirname(os.path.dirname(os.path.abspath(__file__)))
SEEDED = os.path.join(VERIF, "seeded")
PY = "/venv/bin/python"


def sh(cmd, cwd=None, env=None, timeout=3600):
    return subprocess.run(cmd, shell=True, cwd=cwd, env=env, capture_output=True, text=True, timeout=timeout)


def scratch(name):
    d = "/tmp/seed_%s_%d" % (name, os.getpid())
    sh("git -C /repo worktree remove --force %s" % d)
    r = sh("git -C /repo worktree add -q --detach %s HEAD" % d)
    if r.returncode != 0:
        raise RuntimeError(r.stderr)
    return d


def drop(d):
    sh("git -C /repo worktree remove --force %s" % d)
    shutil.rmtree(d, ignore_errors=True)
    sh("git -C /repo worktree prune")


def do_import(src, prop, k, sid):
    dst = os.path.join(SEEDED, sid)
    os.makedirs(dst, exist_ok=True)
    shutil.copy(os.path.join(src, "patch%s.diff" % k), os.path.join(dst, "patch.diff"))
    shutil.copy(os.path.join(src, "demo%s.py" % k), os.path.join(dst, "demo.py"))
    note = open(os.path.join(src, "note%s.txt" % k)).read() if os.path.exists(os.path.join(src, "note%s.txt" % k)) else ""
    d = scratch(sid)
    ran = []
    try:
        shutil.copy(os.path.join(dst, "demo.py"), os.path.join(d, "demo_seed.py"))
        r0 = sh("%s demo_seed.py" % PY, cwd=d)
        ran.append("demo on clean HEAD: exit %d" % r0.returncode)
        ra = sh("git apply %s" % os.path.join(dst, "patch.diff"), cwd=d)
        ran.append("git apply: exit %d %s" % (ra.returncode, ra.stderr.strip()[:200]))
        rt = sh("%s -m pytest -q -p no:cacheprovider -x 2>&1 | tail -1" % PY, cwd=d)
        ran.append("test suite with patch: " + rt.stdout.strip())
        r1 = sh("%s demo_seed.py" % PY, cwd=d)
        ran.append("demo with patch: exit %d: %s" % (r1.returncode, (r1.stdout + r1.stderr).strip()[-300:]))
        ok = r0.returncode == 0 and ra.returncode == 0 and " passed" in rt.stdout and "failed" not in rt.stdout and r1.returncode != 0
    finally:
        drop(d)
    meta = {"id": sid, "property": prop, "source": "independent sub-agent given only the property text and a scratch worktree",
            "needs": note.strip(), "confirmed": ok, "ran": ran, "detected_by": None}
    with open(os.path.join(dst, "meta.json"), "w") as fh:
        json.dump(meta, fh, indent=1)
    print(sid, "confirmed" if ok else "NOT CONFIRMED", ran)
    return ok


def do_test(ids):
    ids = ids or sorted(x for x in os.listdir(SEEDED) if os.path.isdir(os.path.join(SEEDED, x)))
    results = {}
    for sid in ids:
        dst = os.path.join(SEEDED, sid)
        meta = json.load(open(os.path.join(dst, "meta.json")))
        props = meta["property"] if isinstance(meta["property"], list) else [meta["property"]]
        props = props + [p for p in meta.get("also_check", []) if p not in props]
        d = scratch(sid)
        try:
            ra = sh("git apply %s" % os.path.join(dst, "patch.diff"), cwd=d)
            if ra.returncode != 0:
                ra = sh("git apply --3way %s" % os.path.join(dst, "patch.diff"), cwd=d)
            if ra.returncode != 0:
                print(sid, "PATCH DOES NOT APPLY", ra.stderr[:300])
                results[sid] = None
                continue
            env = dict(os.environ)
            env["H5V_REPO"] = d
            out = {}
            for p in props:
                t0 = time.time()
                r = sh("bin/check %s --tier quick" % p, cwd=VERIF, env=env)
                first = [l for l in r.stdout.splitlines() if l.startswith(("VIOLATION", "UNDECIDED", "CHECKER-ERROR"))][:2]
                out[p] = {"exit": r.returncode, "s": round(time.time() - t0, 1), "lines": [l[:400] for l in first]}
            # the thorough tier (bounded native families) for the changes the quick tier does not report
            if not any(o["exit"] == 1 for o in out.values()):
                for p in meta.get("thorough_check", []):
                    t0 = time.time()
                    r = sh("bin/check %s --tier thorough" % p, cwd=VERIF, env=env, timeout=7200)
                    first = [l for l in r.stdout.splitlines() if l.startswith(("VIOLATION", "UNDECIDED", "CHECKER-ERROR"))][:2]
                    out[p + "/thorough"] = {"exit": r.returncode, "s": round(time.time() - t0, 1), "lines": [l[:400] for l in first]}
            results[sid] = out
            det = [p for p, o in out.items() if o["exit"] == 1]
            print(sid, "DETECTED by " + ",".join(det) if det else "MISSED", json.dumps(out)[:900])
            meta["detected_by"] = det
            meta["last_test"] = out
            with open(os.path.join(dst, "meta.json"), "w") as fh:
                json.dump(meta, fh, indent=1)
        finally:
            drop(d)
    # restore evidence files for the real tree is the caller's job (checks rewrite evidence on every run)
    return results


if __name__ == "__main__":
    if sys.argv[1] == "import":
        do_import(sys.argv[2], sys.argv[3], sys.argv[4], sys.argv[5])
    elif sys.argv[1] == "test":
        do_test(sys.argv[2:])

"""sorted() over a small list of symbolic items: insertion sort whose comparisons fork (stable, like
Python's).  Only for lists of concrete length (bounded clauses)."""
import ast

from . import builtins_ as B
from .values import ListV


def symbolic_sorted(I, items, key):
    keys = [I.call(key, [x], {}) if key is not None else x for x in items]
    order_ = []
    for i in range(len(items)):
        pos = len(order_)
        # stable insertion: move left while the previous key is strictly greater
        while pos > 0:
            gt = B.order(I, ast.Gt(), keys[order_[pos - 1]], keys[i])
            if I.ctx.branch(gt):
                pos -= 1
            else:
                break
        order_.insert(pos, i)
    return ListV([items[i] for i in order_])

"""pyvc: verification-condition generator for the real html5lib source (see /verif/DESIGN.md)."""

"""AST interpreter over symbolic values (the part of Python that html5lib uses)."""
import ast
import z3

from . import repo
from .repo import FunctionInfo, ClassInfo, ModuleInfo, ReConst, FuncRef, ClassRef, ModuleRef, ConstDict, Opaque
from .values import (SRec, Sym, SStr, SInt, SBool, SBytes, SStrList, Obj, DictV, ListV, SetV, BoundMethod,
                     BuiltinMethod, NativeFn, OpaqueFn, Lambda, Namespace, TypeV, ExcClass, ExcValue,
                     is_strlike, is_intlike, is_boollike, zs, zi, zb, mk_str, mk_int, mk_bool)
from .engine import (ScopeInfeasible, OutOfReach, PathEnd, ReturnSig, BreakSig, ContinueSig, PyRaise, Frame, exc_isa,
                     EXC_PARENTS)
from . import regex2smt
from . import builtins_ as B
from . import relib  # noqa: registers regex builtins
from . import triespec  # noqa: registers trie spec builtins


def has_yield(fn_node):
    for n in ast.walk(fn_node):
        if isinstance(n, (ast.Yield, ast.YieldFrom)):
            # make sure it belongs to this function, not a nested one
            return True
    return False


class Interp(object):
    def __init__(self, ctx):
        self.ctx = ctx
        self.call_depth = 0
        self.loop_specs = {}      # (fn fullname, loop ordinal) -> LoopSpec
        self.global_overrides = {}   # "module.name" -> value (abstract stand-ins for module-level objects)
        self.top_fn = None

    # ------------------------------------------------------------------ truthiness / equality
    def truth(self, v):
        if v is None:
            return False
        if isinstance(v, bool):
            return v
        if isinstance(v, int):
            return v != 0
        if isinstance(v, (str, bytes, tuple, frozenset, dict)):
            return len(v) > 0
        if isinstance(v, SBool):
            return v.z
        if isinstance(v, SStr) and v.nonempty:
            return True
        if isinstance(v, (SStr, SBytes)):
            return z3.Length(v.z) > 0
        if isinstance(v, SStrList):
            return z3.Length(v.z) > 0
        if isinstance(v, SInt):
            return v.z != 0
        if isinstance(v, ListV):
            if v.items:
                return True
            if v.prefix is not None:
                return z3.Length(v.prefix) > 0
            return False
        if isinstance(v, SetV):
            return len(v.items) > 0
        if isinstance(v, DictV):
            if v.abstract is not None:
                return v.abstract.nonempty(self)
            if v.sym_items:
                return True
            conds = [p for (_, p) in v.entries.values()]
            if any(p is True for p in conds):
                return True
            if not conds:
                return False
            return z3.Or(*conds)
        return True

    def is_true(self, v):
        """Branch on truthiness."""
        return self.ctx.branch(self.truth(v))

    def eq(self, a, b):
        """-> python bool or z3 Bool"""
        if isinstance(a, Sym) or isinstance(b, Sym):
            if isinstance(a, SRec) or isinstance(b, SRec):
                if isinstance(a, SRec) and isinstance(b, SRec) and a.kind == b.kind:
                    return a.z == b.z
                return False
            if is_strlike(a) and is_strlike(b):
                return zs(a) == zs(b)
            if (is_intlike(a) or is_boollike(a)) and (is_intlike(b) or is_boollike(b)):
                if is_boollike(a) and is_boollike(b):
                    return zb(a) == zb(b)
                return zi(a) == zi(b)
            if isinstance(a, SBytes) and isinstance(b, (SBytes, bytes)):
                return a.z == B.zbytes(b)
            if isinstance(b, SBytes) and isinstance(a, bytes):
                return b.z == B.zbytes(a)
            if isinstance(a, SStrList) and isinstance(b, SStrList):
                return a.z == b.z
            return False
        if isinstance(a, tuple) and isinstance(b, tuple):
            if len(a) != len(b):
                return False
            parts = [self.eq(x, y) for x, y in zip(a, b)]
            return B.z_and(parts)
        if isinstance(a, ListV) and isinstance(b, ListV):
            if a.prefix is not None or b.prefix is not None:
                if a is b:
                    return True
                if a.prefix is not None and b.prefix is not None and a.prefix.get_id() == b.prefix.get_id():
                    if len(a.items) != len(b.items):
                        return False
                    return B.z_and([self.eq(x, y) for x, y in zip(a.items, b.items)])
                if a.prefix is not None and b.prefix is not None and a.prefix.sort() == b.prefix.sort() and len(a.items) == len(b.items):
                    return B.z_and([a.prefix == b.prefix] + [self.eq(x, y) for x, y in zip(a.items, b.items)])
                raise OutOfReach("equality of symbolic lists")
            if len(a.items) != len(b.items):
                return False
            return B.z_and([self.eq(x, y) for x, y in zip(a.items, b.items)])
        if isinstance(a, ListV) and isinstance(b, tuple) or isinstance(a, tuple) and isinstance(b, ListV):
            return False
        if isinstance(a, DictV) and isinstance(b, DictV):
            if a is b:
                return True
            return B.dict_eq(self, a, b)
        if isinstance(a, (Obj, DictV, ListV)) or isinstance(b, (Obj, DictV, ListV)):
            return type(a) is type(b) and a.oid == b.oid
        if isinstance(a, (FunctionInfo, ClassInfo, BoundMethod)) or isinstance(b, (FunctionInfo, ClassInfo, BoundMethod)):
            if isinstance(a, BoundMethod) and isinstance(b, BoundMethod):
                return a.recv is b.recv and a.fn.node is b.fn.node
            return a is b
        try:
            return a == b
        except Exception:
            return False

    def same(self, a, b):
        """`is`"""
        if a is None or b is None:
            return a is b
        if isinstance(a, SRec) or isinstance(b, SRec):
            return self.eq(a, b)
        if isinstance(a, (bool,)) or isinstance(b, bool):
            if isinstance(a, SBool) or isinstance(b, SBool):
                return zb(a) == zb(b)
            return a is b
        if isinstance(a, BoundMethod) and isinstance(b, BoundMethod):
            return a.recv is b.recv and a.fn.node is b.fn.node
        if isinstance(a, (Obj, DictV, ListV, SetV)) or isinstance(b, (Obj, DictV, ListV, SetV)):
            # snapshots (`old`, `pre`) keep the oid of the object they copy
            return type(a) is type(b) and a.oid == b.oid
        # immutable values: identity of equal small strings is an implementation detail that
        # html5lib relies on nowhere except for None / singletons
        return self.eq(a, b)

    def contains(self, item, cont, node=None):
        if isinstance(cont, (frozenset, tuple, SetV, ListV)) or (isinstance(cont, dict) and not isinstance(cont, DictV)):
            if isinstance(cont, ListV):
                if cont.prefix is not None:
                    k = B.pfx_kind(cont)
                    if is_strlike(item) and k == "strs":
                        return B.z_or([z3.Contains(cont.prefix, z3.Unit(zs(item)))] + [self.eq(item, x) for x in cont.items])
                    if is_strlike(item) and k == "chars":
                        return B.z_or([z3.And(z3.Length(zs(item)) == 1, z3.Contains(cont.prefix, zs(item)))] + [self.eq(item, x) for x in cont.items])
                    if item is None and k in ("strs", "chars"):
                        return B.z_or([self.eq(item, x) for x in cont.items])
                    raise OutOfReach("membership in symbolic list")
                elems = cont.items
            elif isinstance(cont, SetV):
                elems = cont.items
            else:
                elems = list(cont)
            if isinstance(item, SStr) and len(elems) > 3 and all(isinstance(e, str) and len(e) == 1 for e in elems):
                # membership in a set of single characters: one regular-expression class (ranges) instead
                # of a long disjunction of equalities
                return z3.InRe(item.z, regex2smt.charset_regex("".join(elems)))
            if isinstance(cont, dict) and isinstance(item, SStr) and B.is_big_str_table(cont):
                has, _ = B.big_dict_fns(self, cont)
                return has(item.z)
            if not isinstance(item, Sym) and not isinstance(item, (Obj, DictV, ListV, tuple)):
                try:
                    if not any(isinstance(e, Sym) for e in elems):
                        return item in cont if not isinstance(cont, (ListV, SetV)) else any(self.eq(item, e) is True for e in elems)
                except TypeError:
                    pass
            return B.z_or([self.eq(item, e) for e in elems])
        if isinstance(cont, DictV):
            return B.dict_has(self, cont, item)
        if is_strlike(cont):
            if item is None:
                raise PyRaise("TypeError", "'in <string>' requires string as left operand, not NoneType")
            if not is_strlike(item):
                raise PyRaise("TypeError", "'in <string>' requires string as left operand")
            if isinstance(cont, str) and isinstance(item, str):
                return item in cont
            zi_ = zs(item)
            if isinstance(cont, str) and cont and self.at_most_one_char(zi_):
                # `c in "abc"` for a string of at most one character: c == "" or c is one of the characters
                return z3.Or(zi_ == z3.StringVal(""), z3.InRe(zi_, regex2smt.charset_regex(cont)))
            return z3.Contains(zs(cont), zi_)
        if isinstance(cont, (bytes, SBytes)):
            return z3.Contains(B.zbytes(cont), B.zbytes(item))
        if isinstance(cont, SStrList):
            return z3.Contains(cont.z, z3.Unit(zs(item)))
        if isinstance(cont, Obj):
            m = self.find_method(cont, "__contains__")
            if m is not None:
                return self.truth(self.call(m, [item], {}))
        raise OutOfReach("`in` on %r" % (cont,))

    def at_most_one_char(self, z):
        if z.decl().kind() == z3.Z3_OP_SEQ_AT:
            return True
        if z.decl().kind() == z3.Z3_OP_SEQ_EXTRACT:
            ln = z3.simplify(z.arg(2))
            return z3.is_int_value(ln) and ln.as_long() <= 1
        return self.ctx.check(z3.Length(z) > 1)[0] == "unsat"

    # ------------------------------------------------------------------ names
    def lookup(self, name, frame, node=None):
        f = frame
        while f is not None:
            if name in f.locals:
                return f.locals[name]
            f = f.parent
        return self.lookup_global(name, frame.module)

    def lookup_global(self, name, module):
        if module is not None and (module.name + "." + name) in self.global_overrides:
            return self.global_overrides[module.name + "." + name]
        if module is not None:
            if name in module.functions:
                return module.functions[name]
            if name in module.classes:
                return module.classes[name]
            if name in module.imports and module.is_repo:
                # a module may rebind an imported name (`spaceCharacters = "".join(spaceCharacters)`):
                # the real module's global is the truth for plain data
                try:
                    cv = module.consts().get(name)
                except Exception:
                    cv = None
                if cv is not None and not isinstance(cv, (FuncRef, ClassRef, ModuleRef, Opaque)):
                    return self.from_const(cv)
            if name in module.imports:
                modname, attr = module.imports[name]
                r = self.resolve_import(modname, attr)
                if r is not NotImplemented:
                    return r
            try:
                consts = module.consts()
            except Exception as e:
                raise OutOfReach("cannot load constants of %s: %s" % (module.name, e))
            if name in consts:
                return self.from_const(consts[name])
        if name in B.BUILTINS:
            return B.BUILTINS[name]
        if name in EXC_PARENTS or name in ("BaseException",):
            return ExcClass(name)
        raise OutOfReach("unresolved name %s in %s" % (name, module.name if module else "?"))

    def resolve_import(self, modname, attr):
        if attr is None:
            return ModuleRef(modname)
        if modname == "pyvc.contract":
            if attr in B.BUILTINS:
                return B.BUILTINS[attr]
            return None
        m = repo.get_module(modname)
        if m is not None:
            if attr in m.functions:
                return m.functions[attr]
            if attr in m.classes:
                return m.classes[attr]
            if attr in m.imports:
                return self.lookup_global(attr, m)
            sub = repo.get_module(modname + "." + attr)
            if sub is not None:
                return ModuleRef(modname + "." + attr)
            consts = m.consts()
            if attr in consts:
                return self.from_const(consts[attr])
            return NotImplemented
        full = modname + "." + attr
        if full == "six.moves.urllib_parse":
            return ModuleRef("urllib.parse")
        if full in B.LIBRARY:
            return B.LIBRARY[full]
        return NotImplemented

    def from_const(self, v):
        if isinstance(v, FuncRef):
            if v.module and (v.module.startswith("html5lib") or v.module.split(".")[0] in repo._extra_roots):
                try:
                    return repo.find_function(v.module + "." + v.qualname)
                except KeyError:
                    pass
            full = "%s.%s" % (v.module, v.qualname)
            if full in B.LIBRARY:
                return B.LIBRARY[full]
            if v.qualname in B.BUILTINS:
                return B.BUILTINS[v.qualname]
            return Opaque({"repr": full})
        if isinstance(v, ClassRef):
            if v.module and v.module.startswith("html5lib"):
                try:
                    r = repo.get_module(v.module).nested_function(v.qualname)
                    if r is not None:
                        return r
                except Exception:
                    pass
            full = "%s.%s" % (v.module, v.qualname)
            if full in B.LIBRARY:
                return B.LIBRARY[full]
            if v.qualname in B.BUILTINS:
                return B.BUILTINS[v.qualname]
            if v.qualname in EXC_PARENTS:
                return ExcClass(v.qualname)
            return Opaque({"repr": full})
        return v

    def module_attr(self, mref, attr):
        m = repo.get_module(mref.name)
        if m is not None:
            return self.lookup_global(attr, m)
        full = mref.name + "." + attr
        if full in B.LIBRARY:
            return B.LIBRARY[full]
        raise OutOfReach("library attribute " + full)

    # ------------------------------------------------------------------ attribute access
    def find_method(self, obj, name):
        if isinstance(obj, Obj) and isinstance(obj.cls, ClassInfo):
            return_fn = obj.cls.find_method(name)
            if return_fn is not None:
                return BoundMethod(obj, return_fn)
        return None

    def getattr(self, v, attr, node=None, frame=None):
        if isinstance(v, Obj):
            if attr in v.fields:
                return v.fields[attr]
            if attr in v.methods:
                return NativeFn("%s.%s" % (v.clsname(), attr), v.methods[attr])     # abstract override from the contract
            if isinstance(v.cls, ClassInfo):
                m = v.cls.find_method(attr)
                if m is not None:
                    if any(isinstance(d, ast.Name) and d.id == "property" for d in m.node.decorator_list):
                        return self.call_function(m, [v], {})
                    if any(isinstance(d, ast.Name) and d.id == "staticmethod" for d in m.node.decorator_list):
                        return m
                    return BoundMethod(v, m)
                ca = v.cls.find_attr(attr)
                if ca is not None:
                    c, expr = ca
                    pr = self.property_parts(c, expr)
                    if pr is not None:
                        if pr[0] is None:
                            raise PyRaise("AttributeError", "unreadable attribute " + attr)
                        return self.call_function(pr[0], [v], {})
                    return self.class_attr_value(c, attr, expr)
                ga = v.cls.find_method("__getattr__")
                if ga is not None:
                    return self.call_function(ga, [v, attr], {})
            if attr in v.methods:
                return NativeFn("%s.%s" % (v.clsname(), attr), v.methods[attr])
            if isinstance(v.cls, str) and (v.cls, attr) in B.ABSTRACT_METHODS:
                return BuiltinMethod(v, attr)
            if isinstance(v.cls, ClassInfo) and self.class_assigns_field(v.cls, attr):
                # the real class has this field (some method assigns self.<attr>) but the contract's symbolic object
                # was built without it: the contract does not cover this version of the class -- undecided, not an
                # AttributeError of the code
                raise OutOfReach("field %s of %s is assigned by the class but not provided by the contract's object "
                                 "(contract needs updating for this version of the code)" % (attr, v.clsname()))
            if isinstance(v.cls, str):
                # an abstract stand-in (parser, tree, stream ...) built by a contract: what it does not model is out of
                # the contract's reach, not an AttributeError of the code
                raise OutOfReach("the contract's abstract %s has no model of attribute %s" % (v.clsname(), attr))
            raise PyRaise("AttributeError", "%s has no attribute %s" % (v.clsname(), attr))
        if isinstance(v, ClassInfo):
            m = v.find_method(attr)
            if m is not None:
                return m
            ca = v.find_attr(attr)
            if ca is not None:
                return self.class_attr_value(ca[0], attr, ca[1])
            raise PyRaise("AttributeError", attr)
        if isinstance(v, ModuleRef):
            return self.module_attr(v, attr)
        if isinstance(v, Namespace):
            if attr in v.d:
                return v.d[attr]
            raise OutOfReach("namespace has no %s" % attr)
        if isinstance(v, (str, SStr, bytes, SBytes, ListV, DictV, SetV, tuple, frozenset, dict, ReConst, SStrList, B.MatchV)):
            if isinstance(v, B.MatchV) and attr in ("string",):
                return v.string
            if isinstance(v, ReConst) and attr == "pattern":
                return v.pattern
            return BuiltinMethod(v, attr)
        if isinstance(v, SRec):
            k = v.attrs.get(attr)
            if k == "str":
                return mk_str(self.ctx.opaque_fn("%s_%s" % (v.kind, attr), [z3.IntSort()], z3.StringSort())(v.z))
            if k == "int":
                return mk_int(self.ctx.opaque_fn("%s_%s" % (v.kind, attr), [z3.IntSort()], z3.IntSort())(v.z))
            if k == "opaque":
                return Obj("%s.%s" % (v.kind, attr), {"of": v})
            if isinstance(k, str) and k.startswith("pair:"):
                a, b = k[5:].split(",")
                return (self.getattr(v, a), self.getattr(v, b))
            raise PyRaise("AttributeError", "%s has no attribute %s" % (v.kind, attr))
        if isinstance(v, ExcValue):
            if attr == "args":
                return tuple(v.args)
            raise PyRaise("AttributeError", attr)
        if v is None:
            raise PyRaise("AttributeError", "'NoneType' object has no attribute '%s'" % attr)
        raise OutOfReach("attribute %s of %r" % (attr, v))

    _class_attr_cache = {}

    def class_attr_value(self, cls, attr, expr):
        key = (id(cls.node), attr)
        # prefer the real value from the module's globals is impossible for class attrs; evaluate
        # the defining expression in module scope (literals / frozenset(...) / simple calls).
        fr = Frame(None, {}, True)
        fr.module = cls.module
        fr.cls = cls
        return self.eval(expr, fr)

    # ------------------------------------------------------------------ calls
    def call(self, f, args, kwargs, node=None, frame=None):
        if isinstance(f, BoundMethod):
            return self.call_function(f.fn, [f.recv] + list(args), kwargs, node=node)
        if isinstance(f, FunctionInfo):
            return self.call_function(f, list(args), kwargs, node=node)
        if isinstance(f, NativeFn):
            return f.impl(self, args, kwargs)
        if isinstance(f, BuiltinMethod):
            return B.call_method(self, f.recv, f.name, args, kwargs, node)
        if isinstance(f, Lambda):
            return self.call_lambda(f, args)
        if isinstance(f, ClassInfo):
            return self.instantiate(f, args, kwargs)
        if isinstance(f, OpaqueFn):
            return B.call_opaque(self, f, args)
        if isinstance(f, TypeV):
            return B.call_type(self, f, args, kwargs)
        if isinstance(f, ExcClass):
            return ExcValue(f.name, tuple(args))
        raise OutOfReach("call of %r" % (f,))

    def call_lambda(self, lam, args):
        node = lam.node
        names = [a.arg for a in node.args.args]
        loc = dict(zip(names, args))
        fr = Frame(None, loc, lam.frame.spec_mode, parent=lam.frame)
        return self.eval(node.body, fr)

    def instantiate(self, cls, args, kwargs):
        obj = Obj(cls)
        init = cls.find_method("__init__")
        if init is not None:
            self.call_function(init, [obj] + list(args), kwargs)
        return obj

    def bind(self, fn, args, kwargs):
        a = fn.node.args
        params = [x.arg for x in a.args]
        loc = {}
        if len(args) > len(params) and a.vararg is None:
            raise PyRaise("TypeError", "too many positional arguments for %s" % fn.fullname)
        for p, v in zip(params, args):
            loc[p] = v
        if a.vararg is not None:
            loc[a.vararg.arg] = tuple(args[len(params):])
        kw = dict(kwargs)
        for p in params[len(args):]:
            if p in kw:
                loc[p] = kw.pop(p)
        for ko in a.kwonlyargs:
            if ko.arg in kw:
                loc[ko.arg] = kw.pop(ko.arg)
        if a.kwarg is not None:
            loc[a.kwarg.arg] = DictV(kw)
            kw = {}
        if kw:
            raise PyRaise("TypeError", "unexpected keyword arguments %s for %s" % (list(kw), fn.fullname))
        # defaults
        defaults = a.defaults
        dparams = params[len(params) - len(defaults):] if defaults else []
        for p, d in zip(dparams, defaults):
            if p not in loc:
                fr = Frame(fn, {}, not fn.module.is_repo)
                loc[p] = self.eval(d, fr)
        for ko, d in zip(a.kwonlyargs, a.kw_defaults):
            if ko.arg not in loc and d is not None:
                fr = Frame(fn, {}, not fn.module.is_repo)
                loc[ko.arg] = self.eval(d, fr)
        for p in params:
            if p not in loc:
                raise PyRaise("TypeError", "missing argument %s for %s" % (p, fn.fullname))
        return loc

    def call_function(self, fn, args, kwargs, node=None, top=False, spec=None, record_frame=False):
        ctx = self.ctx
        contract = None if top else ctx.registry.get(fn.fullname)
        if contract is not None and getattr(contract, "modular", True) and fn.module.is_repo:
            from .modular import apply_contract
            return apply_contract(self, contract, fn, args, kwargs, node)
        if not top and fn.module.is_repo:
            ctx.inlined.add(fn.fullname)
        self.call_depth += 1
        if self.call_depth > 40:
            self.call_depth -= 1
            raise OutOfReach("call depth > 40 (recursion without contract?) at %s" % fn.fullname)
        try:
            loc = self.bind(fn, args, kwargs)
            spec_mode = (not fn.module.is_repo) if spec is None else spec
            fr = Frame(fn, loc, spec_mode)
            if record_frame:
                self.top_frame = fr
            if has_yield(fn.node):
                fr.yielded = []
                try:
                    self.exec_block(fn.node.body, fr)
                except ReturnSig:
                    pass
                return ListV(fr.yielded, cls="generator")
            try:
                self.exec_block(fn.node.body, fr)
            except ReturnSig as r:
                return r.value
            return None
        finally:
            self.call_depth -= 1

    # ------------------------------------------------------------------ statements
    def exec_block(self, stmts, frame):
        for st in stmts:
            self.exec_stmt(st, frame)

    def exec_stmt(self, st, frame):
        m = getattr(self, "st_" + type(st).__name__, None)
        if m is None:
            raise OutOfReach("statement %s at %s:%d" % (type(st).__name__, frame.module.name, st.lineno))
        return m(st, frame)

    def st_Expr(self, st, frame):
        if isinstance(st.value, ast.Constant) and isinstance(st.value.value, str):
            return      # docstring
        self.eval(st.value, frame)

    def st_Pass(self, st, frame):
        pass

    def st_Return(self, st, frame):
        raise ReturnSig(self.eval(st.value, frame) if st.value is not None else None)

    def st_Break(self, st, frame):
        raise BreakSig()

    def st_Continue(self, st, frame):
        raise ContinueSig()

    def st_Global(self, st, frame):
        raise OutOfReach("global statement")

    def st_Import(self, st, frame):
        for a in st.names:
            frame.locals[a.asname or a.name.split(".")[0]] = ModuleRef(a.name if a.asname else a.name.split(".")[0])

    ABSENT_MODULES = ("chardet", "chardet.universaldetector")     # ground fact: not importable in this environment

    def st_ImportFrom(self, st, frame):
        if st.level:
            raise OutOfReach("relative import inside function")
        if st.module in self.ABSENT_MODULES:
            self.ctx.notes.append("assumed: module %s is not importable (as in this environment)" % st.module)
            raise PyRaise("ImportError", "No module named %s" % st.module, site=st)
        for a in st.names:
            r = self.resolve_import(st.module, a.name)
            if r is NotImplemented:
                raise OutOfReach("import %s.%s" % (st.module, a.name))
            frame.locals[a.asname or a.name] = r

    def st_Assert(self, st, frame):
        if frame.spec_mode:
            # in contract code `assert e` states a proof obligation
            v = self.eval(st.test, frame)
            if self.ctx.assuming:
                self.ctx.assume(self.truth(v))       # a callee's clause used as an assumption: its proof discharged this
            else:
                self.ctx.oblige("%s/assert@%d" % (frame.fn.qualname if frame.fn else "?", st.lineno), "spec-assert", self.truth(v))
            return
        v = self.eval(st.test, frame)
        if not self.is_true(v):
            raise PyRaise("AssertionError", "assert at line %d" % st.lineno, site=st)

    def st_Assign(self, st, frame):
        v = self.eval(st.value, frame)
        for t in st.targets:
            self.assign(t, v, frame)

    def st_AnnAssign(self, st, frame):
        if st.value is not None:
            self.assign(st.target, self.eval(st.value, frame), frame)

    def st_AugAssign(self, st, frame):
        t = st.target
        if isinstance(t, ast.Name):
            cur = self.lookup(t.id, frame)
            frame.locals[t.id] = self.binop(st.op, cur, self.eval(st.value, frame), st)
        elif isinstance(t, ast.Attribute):
            obj = self.eval(t.value, frame)
            cur = self.getattr(obj, t.attr, t, frame)
            self.setattr(obj, t.attr, self.binop(st.op, cur, self.eval(st.value, frame), st))
        elif isinstance(t, ast.Subscript):
            obj = self.eval(t.value, frame)
            idx = self.eval_index(t.slice, frame)
            cur = self.getitem(obj, idx, t)
            self.setitem(obj, idx, self.binop(st.op, cur, self.eval(st.value, frame), st), t)
        else:
            raise OutOfReach("augmented assignment target")

    def st_Delete(self, st, frame):
        for t in st.targets:
            if isinstance(t, ast.Subscript):
                obj = self.eval(t.value, frame)
                idx = self.eval_index(t.slice, frame)
                B.delitem(self, obj, idx, t)
            elif isinstance(t, ast.Name):
                frame.locals.pop(t.id, None)
            else:
                raise OutOfReach("del target")

    def assign(self, target, v, frame):
        if isinstance(target, ast.Name):
            frame.locals[target.id] = v
        elif isinstance(target, ast.Attribute):
            obj = self.eval(target.value, frame)
            self.setattr(obj, target.attr, v)
        elif isinstance(target, ast.Subscript):
            obj = self.eval(target.value, frame)
            idx = self.eval_index(target.slice, frame)
            self.setitem(obj, idx, v, target)
        elif isinstance(target, (ast.Tuple, ast.List)):
            items = B.unpack(self, v, len(target.elts))
            for t, x in zip(target.elts, items):
                self.assign(t, x, frame)
        else:
            raise OutOfReach("assignment target %s" % type(target).__name__)

    def class_assigns_field(self, cls, attr):
        for c in cls.mro():
            for m in c.methods.values():
                for n in ast.walk(m.node):
                    if isinstance(n, ast.Attribute) and n.attr == attr and isinstance(n.ctx, ast.Store) \
                            and isinstance(n.value, ast.Name) and n.value.id == "self":
                        return True
        return False

    def property_parts(self, cls, expr):
        """(getter, setter) FunctionInfos for a class attribute defined as `property(getter[, setter])`"""
        if isinstance(expr, ast.Call) and isinstance(expr.func, ast.Name) and expr.func.id == "property":
            out = []
            for a in list(expr.args[:2]) + [None] * (2 - len(expr.args[:2])):
                if isinstance(a, ast.Name):
                    out.append(cls.find_method(a.id))
                elif a is None or (isinstance(a, ast.Constant) and a.value is None):
                    out.append(None)
                else:
                    raise OutOfReach("property() with a non-name accessor")
            return out
        return None

    def setattr(self, obj, attr, v):
        if isinstance(obj, Obj):
            if isinstance(obj.cls, ClassInfo) and attr not in obj.fields:
                ca = obj.cls.find_attr(attr)
                if ca is not None:
                    pr = self.property_parts(ca[0], ca[1])
                    if pr is not None:
                        if pr[1] is None:
                            raise PyRaise("AttributeError", "can't set attribute " + attr)
                        self.call_function(pr[1], [obj, v], {})
                        return
            obj.fields[attr] = v
            return
        raise OutOfReach("attribute store on %r" % (obj,))

    def st_If(self, st, frame):
        c = self.eval(st.test, frame)
        if self.is_true(c):
            self.exec_block(st.body, frame)
        else:
            self.exec_block(st.orelse, frame)

    def st_Raise(self, st, frame):
        if st.exc is None:
            cur = frame.locals.get("__current_exception__")
            if cur is None:
                raise OutOfReach("bare raise outside handler")
            raise cur
        e = self.eval(st.exc, frame)
        if isinstance(e, ExcClass):
            raise PyRaise(e.name, "", site=st)
        if isinstance(e, ExcValue):
            raise PyRaise(e.name, str(e.args), site=st)
        if isinstance(e, ClassInfo):
            raise PyRaise(e.qualname.split(".")[-1], "", site=st)
        if isinstance(e, Obj):
            raise PyRaise(e.clsname().split(".")[-1], "", site=st)
        raise OutOfReach("raise of %r" % (e,))

    def st_Try(self, st, frame):
        try:
            try:
                self.exec_block(st.body, frame)
            except PyRaise as e:
                for h in st.handlers:
                    if self.handler_matches(h, e, frame):
                        if h.name:
                            frame.locals[h.name] = ExcValue(e.name, (e.msg,))
                        frame.locals["__current_exception__"] = e
                        self.exec_block(h.body, frame)
                        break
                else:
                    raise
            else:
                self.exec_block(st.orelse, frame)
        finally:
            if st.finalbody:
                self.exec_block(st.finalbody, frame)

    def handler_matches(self, h, e, frame):
        if h.type is None:
            return True
        t = self.eval(h.type, frame)
        ts = t if isinstance(t, tuple) else (t,)
        for x in ts:
            name = x.name if isinstance(x, ExcClass) else (x.qualname.split(".")[-1] if isinstance(x, ClassInfo) else None)
            if name is None:
                raise OutOfReach("except clause type %r" % (x,))
            if exc_isa(e.name, name):
                return True
        return False

    def st_While(self, st, frame):
        from .loops import exec_while
        return exec_while(self, st, frame)

    def st_For(self, st, frame):
        from .loops import exec_for
        return exec_for(self, st, frame)

    def st_FunctionDef(self, st, frame):
        fi = FunctionInfo(frame.module, (frame.fn.qualname + "." if frame.fn else "") + st.name, st, None)
        fi.closure = frame
        frame.locals[st.name] = fi

    def st_With(self, st, frame):
        raise OutOfReach("with statement")

    # ------------------------------------------------------------------ expressions
    def eval(self, node, frame):
        m = getattr(self, "ex_" + type(node).__name__, None)
        if m is None:
            raise OutOfReach("expression %s at %s:%d" % (type(node).__name__, frame.module.name if frame.module else "?", getattr(node, "lineno", 0)))
        return m(node, frame)

    def ex_Constant(self, node, frame):
        v = node.value
        if isinstance(v, float):
            raise OutOfReach("float constant")
        return v

    def ex_Name(self, node, frame):
        return self.lookup(node.id, frame, node)

    def ex_Tuple(self, node, frame):
        out = []
        for e in node.elts:
            if isinstance(e, ast.Starred):
                out.extend(B.iterate(self, self.eval(e.value, frame)))
            else:
                out.append(self.eval(e, frame))
        return tuple(out)

    def ex_List(self, node, frame):
        out = []
        for e in node.elts:
            if isinstance(e, ast.Starred):
                out.extend(B.iterate(self, self.eval(e.value, frame)))
            else:
                out.append(self.eval(e, frame))
        return ListV(out)

    def ex_Set(self, node, frame):
        vals = [self.eval(e, frame) for e in node.elts]
        if all(not isinstance(v, (Sym, Obj, DictV, ListV)) for v in vals):
            return frozenset(vals)
        return SetV(vals)

    def ex_Dict(self, node, frame):
        d = DictV()
        for k, v in zip(node.keys, node.values):
            if k is None:
                src = self.eval(v, frame)
                for kk, vv in B.dict_items(self, src):
                    B.dict_set(self, d, kk, vv)
                continue
            B.dict_set(self, d, self.eval(k, frame), self.eval(v, frame))
        return d

    def ex_Attribute(self, node, frame):
        v = self.eval(node.value, frame)
        return self.getattr(v, node.attr, node, frame)

    def eval_index(self, sl, frame):
        if isinstance(sl, ast.Slice):
            return B.SliceV(self.eval(sl.lower, frame) if sl.lower is not None else None,
                            self.eval(sl.upper, frame) if sl.upper is not None else None,
                            self.eval(sl.step, frame) if sl.step is not None else None)
        return self.eval(sl, frame)

    def ex_Subscript(self, node, frame):
        v = self.eval(node.value, frame)
        idx = self.eval_index(node.slice, frame)
        return self.getitem(v, idx, node)

    def getitem(self, v, idx, node=None):
        return B.getitem(self, v, idx, node)

    def setitem(self, v, idx, val, node=None):
        return B.setitem(self, v, idx, val, node)

    def ex_BoolOp(self, node, frame):
        is_and = isinstance(node.op, ast.And)
        if frame.spec_mode:
            return self.spec_boolop(node, frame, is_and)
        v = None
        for i, e in enumerate(node.values):
            v = self.eval(e, frame)
            if i == len(node.values) - 1:
                return v
            t = self.is_true(v)
            if is_and and not t:
                return v
            if not is_and and t:
                return v
        return v

    def spec_boolop(self, node, frame, is_and):
        """In contract code, and/or over boolean-valued operands build one formula (no forks).
        The right operand is evaluated under the assumption that makes it relevant."""
        ctx = self.ctx
        acc = []
        pushed = []
        try:
            for i, e in enumerate(node.values):
                if pushed:
                    try:
                        v = self.eval(e, frame)
                    except ScopeInfeasible:
                        break       # the assumption under which this operand matters is false here
                else:
                    v = self.eval(e, frame)
                t = self.truth(v)
                if isinstance(t, bool):
                    if is_and and not t:
                        return False if is_boollike(v) else v
                    if not is_and and t:
                        return True if is_boollike(v) else v
                    if i == len(node.values) - 1 and not acc:
                        return v
                    continue
                if not is_boollike(v):
                    # value semantics needed: fall back to forking
                    if i == len(node.values) - 1:
                        if acc:
                            raise OutOfReach("non-boolean tail of and/or in contract code")
                        return v
                    tt = ctx.branch(t)
                    if is_and and not tt:
                        return v
                    if not is_and and tt:
                        return v
                    continue
                acc.append(t)
                if i < len(node.values) - 1:
                    a = t if is_and else z3.Not(t)
                    # no feasibility pre-check (a solver call per operand): if the assumption is impossible
                    # here, the first decision under it raises ScopeInfeasible, handled above
                    ta = ctx.temp_assume(a)
                    ta.__enter__()
                    pushed.append(ta)
            if not acc:
                return True if is_and else False
            return mk_bool(z3.And(*acc) if is_and else z3.Or(*acc))
        finally:
            for ta in reversed(pushed):
                ta.__exit__(None, None, None)

    def ex_UnaryOp(self, node, frame):
        v = self.eval(node.operand, frame)
        if isinstance(node.op, ast.Not):
            t = self.truth(v)
            if isinstance(t, bool):
                return not t
            if frame.spec_mode:
                return mk_bool(z3.Not(t))
            return not self.ctx.branch(t)
        if isinstance(node.op, ast.USub):
            if isinstance(v, int):
                return -v
            if isinstance(v, SInt):
                return mk_int(-v.z)
        if isinstance(node.op, ast.UAdd) and is_intlike(v):
            return v
        if isinstance(node.op, ast.Invert) and isinstance(v, int):
            return ~v
        raise OutOfReach("unary op")

    def ex_BinOp(self, node, frame):
        a = self.eval(node.left, frame)
        b = self.eval(node.right, frame)
        return self.binop(node.op, a, b, node)

    def binop(self, op, a, b, node=None):
        return B.binop(self, op, a, b, node)

    def binop_add(self, a, b):
        return B.binop(self, ast.Add(), a, b, None)

    def ex_Compare(self, node, frame):
        left = self.eval(node.left, frame)
        parts = []
        for op, rn in zip(node.ops, node.comparators):
            right = self.eval(rn, frame)
            parts.append(self.compare(op, left, right, node))
            left = right
        r = B.z_and(parts)
        if isinstance(r, bool):
            return r
        return mk_bool(r)

    def compare(self, op, a, b, node=None):
        if isinstance(op, ast.Eq):
            return self.eq(a, b)
        if isinstance(op, ast.NotEq):
            return B.z_not(self.eq(a, b))
        if isinstance(op, ast.Is):
            return self.same(a, b)
        if isinstance(op, ast.IsNot):
            return B.z_not(self.same(a, b))
        if isinstance(op, ast.In):
            return self.contains(a, b, node)
        if isinstance(op, ast.NotIn):
            return B.z_not(self.contains(a, b, node))
        return B.order(self, op, a, b)

    def ex_IfExp(self, node, frame):
        c = self.eval(node.test, frame)
        t = self.truth(c)
        if isinstance(t, bool):
            return self.eval(node.body if t else node.orelse, frame)
        if frame.spec_mode:
            # try to build an ite term when both arms are scalars of one kind
            x = y = NotImplemented
            try:
                with self.ctx.temp_assume(t):
                    x = self.eval(node.body, frame)
            except ScopeInfeasible:
                pass
            try:
                with self.ctx.temp_assume(z3.Not(t)):
                    y = self.eval(node.orelse, frame)
            except ScopeInfeasible:
                pass
            if x is NotImplemented and y is NotImplemented:
                raise ScopeInfeasible()
            if x is NotImplemented:
                return y
            if y is NotImplemented:
                return x
            r = B.ite(t, x, y)
            if r is not NotImplemented:
                return r
        if self.ctx.branch(t):
            return self.eval(node.body, frame)
        return self.eval(node.orelse, frame)

    def ex_Call(self, node, frame):
        # super()
        if isinstance(node.func, ast.Attribute) and isinstance(node.func.value, ast.Call) \
                and isinstance(node.func.value.func, ast.Name) and node.func.value.func.id == "super":
            selfv = frame.locals.get("self")
            if selfv is None:
                a0 = frame.fn.node.args.args[0].arg
                selfv = frame.locals[a0]
            cls = frame.cls
            m = selfv.cls.find_method(node.func.attr, after=cls) if isinstance(selfv, Obj) and isinstance(selfv.cls, ClassInfo) else None
            args, kwargs = self.eval_args(node, frame)
            if m is None:
                if node.func.attr == "__init__":
                    return None
                raise OutOfReach("super().%s" % node.func.attr)
            return self.call_function(m, [selfv] + args, kwargs, node=node)
        # Base.method(self, ...) explicit base call
        f = self.eval(node.func, frame)
        args, kwargs = self.eval_args(node, frame)
        return self.call(f, args, kwargs, node, frame)

    def eval_args(self, node, frame):
        args = []
        for a in node.args:
            if isinstance(a, ast.Starred):
                args.extend(B.iterate(self, self.eval(a.value, frame)))
            else:
                args.append(self.eval(a, frame))
        kwargs = {}
        for k in node.keywords:
            if k.arg is None:
                src = self.eval(k.value, frame)
                for kk, vv in B.dict_items(self, src):
                    kwargs[kk] = vv
            else:
                kwargs[k.arg] = self.eval(k.value, frame)
        return args, kwargs

    def ex_Lambda(self, node, frame):
        return Lambda(node, frame)

    def ex_Yield(self, node, frame):
        f = frame
        while f is not None and f.yielded is None:
            f = f.parent
        if f is None:
            raise OutOfReach("yield outside generator frame")
        v = self.eval(node.value, frame) if node.value is not None else None
        f.yielded.append(v)
        return None

    def ex_YieldFrom(self, node, frame):
        f = frame
        while f is not None and f.yielded is None:
            f = f.parent
        src = self.eval(node.value, frame)
        for x in B.iterate(self, src):
            f.yielded.append(x)
        return None

    def ex_JoinedStr(self, node, frame):
        raise OutOfReach("f-string")

    def comprehension(self, node, frame, emit):
        def rec(gi, fr):
            if gi == len(node.generators):
                emit(fr)
                return
            g = node.generators[gi]
            it = self.eval(g.iter, fr)
            for x in B.iterate(self, it):
                fr2 = Frame(None, {}, fr.spec_mode, parent=fr)
                self.assign_local(g.target, x, fr2)
                ok = True
                for c in g.ifs:
                    if not self.is_true(self.eval(c, fr2)):
                        ok = False
                        break
                if ok:
                    rec(gi + 1, fr2)
        rec(0, frame)

    def assign_local(self, target, v, frame):
        if isinstance(target, ast.Name):
            frame.locals[target.id] = v
        elif isinstance(target, (ast.Tuple, ast.List)):
            items = B.unpack(self, v, len(target.elts))
            for t, x in zip(target.elts, items):
                self.assign_local(t, x, frame)
        else:
            raise OutOfReach("comprehension target")

    def ex_ListComp(self, node, frame):
        out = []
        self.comprehension(node, frame, lambda fr: out.append(self.eval(node.elt, fr)))
        return ListV(out)

    def ex_GeneratorExp(self, node, frame):
        out = []
        self.comprehension(node, frame, lambda fr: out.append(self.eval(node.elt, fr)))
        return ListV(out, cls="generator")

    def ex_SetComp(self, node, frame):
        out = []
        self.comprehension(node, frame, lambda fr: out.append(self.eval(node.elt, fr)))
        if all(not isinstance(v, (Sym, Obj, DictV, ListV)) for v in out):
            return frozenset(out)
        return SetV(out)

    def ex_DictComp(self, node, frame):
        d = DictV()
        self.comprehension(node, frame, lambda fr: B.dict_set(self, d, self.eval(node.key, fr), self.eval(node.value, fr)))
        return d

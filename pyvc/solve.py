"""Second back end: cvc5 takes the queries z3 leaves `unknown`."""
import os
import subprocess
import tempfile
import z3

CVC5 = "/usr/bin/cvc5"


def cvc5_check(solver, extra, timeout_ms):
    """Dump the z3 solver state + extra as SMT-LIB and ask cvc5. Returns 'sat'/'unsat'/'unknown'."""
    if not os.path.exists(CVC5):
        return "unknown"
    s = z3.Solver()
    for a in solver.assertions():
        s.add(a)
    if extra is not None:
        s.add(extra)
    text = s.to_smt2()
    text = "(set-logic ALL)\n" + text
    fd, path = tempfile.mkstemp(suffix=".smt2", dir=os.environ.get("H5V_TMP", "/tmp"))
    try:
        with os.fdopen(fd, "w") as fh:
            fh.write(text)
        try:
            out = subprocess.run([CVC5, "--strings-exp", "--tlimit=%d" % timeout_ms, path],
                                 capture_output=True, text=True, timeout=timeout_ms / 1000.0 + 5)
        except subprocess.TimeoutExpired:
            return "unknown"
        first = (out.stdout.strip().splitlines() or ["unknown"])[0].strip()
        if first in ("sat", "unsat"):
            return first
        return "unknown"
    finally:
        try:
            os.unlink(path)
        except OSError:
            pass

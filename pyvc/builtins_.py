"""Semantics of built-in operations on symbolic values (the library contracts of pyvc).

Every operation that can raise forks: the failing side raises PyRaise, which either is
caught by the analysed code's own try/except or ends the path as a safety failure.
"""
import ast
import z3

from .repo import ReConst, ConstDict, Opaque, FunctionInfo, ClassInfo
from .values import SRec
from .values import (Sym, SStr, SInt, SBool, SBytes, SStrList, Obj, DictV, ListV, SetV, BoundMethod,
                     BuiltinMethod, NativeFn, OpaqueFn, Lambda, Namespace, TypeV, ExcClass, ExcValue,
                     is_strlike, is_intlike, is_boollike, zs, zi, zb, mk_str, mk_int, mk_bool)
from .engine import OutOfReach, PyRaise, PathEnd
from . import regex2smt


def pfx_kind(l):
    """kind of a ListV's symbolic prefix: 'strs' (Seq of String), 'chars' (a String, one element per
    character -- exact for lists of one-character strings), 'any' (uninspected elements)."""
    srt = l.prefix.sort()
    if srt == z3.StringSort():
        return "chars"
    if srt == z3.SeqSort(z3.StringSort()):
        return "strs"
    if srt == z3.SeqSort(z3.IntSort()):
        return "nodes"
    return "any"


def pfx_len(l):
    """length of the symbolic prefix; a list that is a *view* (the first k elements of a base sequence) answers k"""
    v = getattr(l, "view", None)
    if v is not None:
        return v[1]
    return z3.Length(l.prefix)


def pfx_elem(l, i):
    v = getattr(l, "view", None)
    if v is not None and pfx_kind(l) == "nodes":
        return node_rec(v[0][i])        # element i of the view is element i of its base (0 <= i < k <= len(base))
    k = pfx_kind(l)
    if k == "chars":
        return mk_str(z3.SubString(l.prefix, i, 1))
    if k == "strs":
        return mk_str(l.prefix[i])
    if k == "nodes":
        return node_rec(l.prefix[i])
    raise OutOfReach("element of an uninspected list prefix")


NODE_ATTRS = {"name": "str", "namespace": "str", "nameTuple": "pair:namespace,name"}


def node_rec(zid):
    """an element of the stack of open elements: identified by an integer, its name and namespace are uninterpreted
    functions of the identity (elements are not renamed while on the stack)"""
    return SRec(zid, "Node", NODE_ATTRS)


def pfx_joined(ctx, l):
    k = pfx_kind(l)
    if k == "chars":
        return l.prefix
    if k == "strs":
        return ctx.joined(l.prefix)
    raise OutOfReach("join over an uninspected list prefix")


class SliceV(object):
    def __init__(self, lo, hi, step):
        self.lo, self.hi, self.step = lo, hi, step

    def is_full(self):
        return self.lo is None and self.hi is None and self.step is None


class MatchV(object):
    """Result of re match/search: only what the contracts of `re` expose."""
    def __init__(self, string, start, end, groups=None):
        self.string, self.start, self.end, self.groups = string, start, end, groups or {}


def z_and(parts):
    out = []
    for p in parts:
        if isinstance(p, SBool):
            p = p.z
        if p is True:
            continue
        if p is False:
            return False
        out.append(p)
    if not out:
        return True
    return out[0] if len(out) == 1 else z3.And(*out)


def z_or(parts):
    out = []
    for p in parts:
        if isinstance(p, SBool):
            p = p.z
        if p is False:
            continue
        if p is True:
            return True
        out.append(p)
    if not out:
        return False
    return out[0] if len(out) == 1 else z3.Or(*out)


def z_not(p):
    if isinstance(p, SBool):
        p = p.z
    if isinstance(p, bool):
        return not p
    return z3.Not(p)


def z_implies(a, b):
    return z_or([z_not(a), b])


def zbytes(v):
    if isinstance(v, bytes):
        return z3.StringVal(v.decode("latin-1"))
    if isinstance(v, SBytes):
        return v.z
    raise OutOfReach("not bytes: %r" % (v,))


def ite(c, x, y):
    if is_strlike(x) and is_strlike(y):
        return mk_str(z3.If(c, zs(x), zs(y)))
    if is_boollike(x) and is_boollike(y):
        return mk_bool(z3.If(c, zb(x), zb(y)))
    if is_intlike(x) and is_intlike(y):
        return mk_int(z3.If(c, zi(x), zi(y)))
    if x is y:
        return x
    return NotImplemented


# ---------------------------------------------------------------------- sequences / dicts
def py_len(I, v):
    if isinstance(v, DictV) and v.sym_items is not None:
        return len(v.sym_items) + len(v.entries)
    if isinstance(v, (str, bytes, tuple, frozenset, dict)):
        return len(v)
    if isinstance(v, (SStr, SBytes, SStrList)):
        return mk_int(z3.Length(v.z))
    if isinstance(v, ListV):
        if v.prefix is not None:
            return mk_int(pfx_len(v) + len(v.items))
        return len(v.items)
    if isinstance(v, SetV):
        return len(v.items)
    if isinstance(v, DictV):
        if v.abstract is not None:
            return v.abstract.length(I)
        if all(p is True for (_, p) in v.entries.values()):
            return len(v.entries)
        return mk_int(z3.Sum(*[z3.If(p, 1, 0) if p is not True else z3.IntVal(1) for (_, p) in v.entries.values()]))
    if isinstance(v, Obj):
        m = I.find_method(v, "__len__")
        if m is not None:
            return I.call(m, [], {})
    raise OutOfReach("len of %r" % (v,))


def iterate(I, v):
    """Concrete-length iteration."""
    if isinstance(v, (tuple, frozenset)):
        return list(v) if isinstance(v, tuple) else sorted(v, key=repr)
    if isinstance(v, str):
        return list(v)
    if isinstance(v, bytes):
        return list(v)
    if isinstance(v, ListV):
        if v.prefix is not None:
            raise OutOfReach("iteration over a list of symbolic length needs a loop contract")
        return list(v.items)
    if isinstance(v, SetV):
        return list(v.items)
    if isinstance(v, DictV):
        return [k for k, _ in dict_items(I, v)]
    if isinstance(v, dict):
        return list(v.keys())
    if isinstance(v, RangeV):
        return v.items(I)
    if isinstance(v, SStr):
        raise OutOfReach("iteration over a symbolic string needs a loop contract")
    if isinstance(v, Obj):
        m = I.find_method(v, "__iter__")
        if m is not None:
            return iterate(I, I.call(m, [], {}))
    raise OutOfReach("iteration over %r" % (v,))


class RangeV(object):
    def __init__(self, lo, hi, step=1):
        self.lo, self.hi, self.step = lo, hi, step

    def items(self, I):
        if all(isinstance(x, int) for x in (self.lo, self.hi, self.step)):
            return list(range(self.lo, self.hi, self.step))
        raise OutOfReach("symbolic range needs a loop contract")


def unpack(I, v, n):
    if isinstance(v, tuple):
        items = list(v)
    elif isinstance(v, ListV) and v.prefix is None:
        items = list(v.items)
    elif isinstance(v, str):
        items = list(v)
    else:
        raise OutOfReach("unpack of %r" % (v,))
    if len(items) != n:
        raise PyRaise("ValueError", "unpack arity %d != %d" % (len(items), n))
    return items


def key_concrete(k):
    if isinstance(k, Sym):
        return False
    if isinstance(k, tuple):
        return all(key_concrete(x) for x in k)
    return not isinstance(k, (Obj, DictV, ListV))


def dict_items(I, d):
    """[(key, value)] of entries that are definitely present; forks on uncertain presence."""
    if isinstance(d, DictV) and d.sym_items is not None:
        return [(k, v) for k, v in d.sym_items] + [(k, v) for k, (v, p) in d.entries.items() if p is True]
    if isinstance(d, DictV):
        if d.abstract is not None:
            raise OutOfReach("iteration over an abstract map needs a loop contract")
        out = []
        for k, (v, p) in list(d.entries.items()):
            if p is True or I.ctx.branch(p):
                out.append((k, v))
        return out
    if isinstance(d, dict):
        return list(d.items())
    if isinstance(d, ListV) and d.prefix is None:
        return [tuple(unpack(I, x, 2)) for x in d.items]
    if isinstance(d, tuple):
        return [tuple(unpack(I, x, 2)) for x in d]
    raise OutOfReach("items of %r" % (d,))


def dict_has(I, d, k):
    if d.abstract is not None:
        return d.abstract.has(I, k)
    if d.sym_items is not None:
        return z_or([I.eq(k, kk) for kk, _ in d.sym_items] + [z_and([I.eq(k, kk), p]) for kk, (v, p) in d.entries.items()])
    if key_concrete(k):
        e = d.entries.get(k)
        if e is None:
            return False
        return e[1]
    return z_or([z_and([I.eq(k, kk), p]) for kk, (v, p) in d.entries.items()])


def dict_set(I, d, k, v):
    if d.abstract is not None:
        return d.abstract.set(I, k, v)
    if not key_concrete(k) or d.sym_items is not None:
        if d.entries and d.sym_items is None:
            raise OutOfReach("dict store with symbolic key into a dict with concrete keys")
        if d.sym_items is None:
            d.sym_items = []
        for it in d.sym_items:
            if I.ctx.branch(I.eq(it[0], k)):
                it[1] = v              # existing key: value replaced, position kept
                return
        d.sym_items.append([k, v])
        return
    if k in d.entries:
        d.entries[k] = [v, True]       # position of an existing key is kept (Python semantics)
    else:
        d.entries[k] = [v, True]


def dict_get(I, d, k, node=None):
    if d.abstract is not None:
        return d.abstract.get(I, k, node)
    if d.sym_items is not None:
        for kk, v in d.sym_items:
            if I.ctx.branch(I.eq(k, kk)):
                return v
        if key_concrete(k) and k in d.entries:
            return d.entries[k][0]
        raise PyRaise("KeyError", "key not in dict", site=node)
    if key_concrete(k):
        e = d.entries.get(k)
        if e is None:
            raise PyRaise("KeyError", repr(k), site=node)
        v, p = e
        if p is not True and not I.ctx.branch(p):
            raise PyRaise("KeyError", repr(k), site=node)
        return v
    # symbolic key over concrete entries: fork per entry
    for kk, (v, p) in d.entries.items():
        if I.ctx.branch(z_and([I.eq(k, kk), p])):
            return v
    raise PyRaise("KeyError", "symbolic key", site=node)


BIG_DICT = 300


def big_dict_fns(I, d):
    """A large constant str->str table read with a symbolic key is abstracted by an uninterpreted
    function and membership predicate (sound: what is proved holds for every table)."""
    import hashlib
    h = hashlib.sha256(repr(sorted(d.keys())).encode("utf-8", "surrogatepass")).hexdigest()[:8]
    has = I.ctx.opaque_fn("table_has_" + h, [z3.StringSort()], z3.BoolSort())
    get = I.ctx.opaque_fn("table_get_" + h, [z3.StringSort()], z3.StringSort())
    return has, get


def is_big_str_table(d):
    return len(d) > BIG_DICT and all(isinstance(k, str) for k in d) and all(isinstance(v, str) for v in d.values())


def const_dict_get(I, d, k, node=None):
    if key_concrete(k):
        if k in d:
            return d[k]
        raise PyRaise("KeyError", repr(k), site=node)
    if is_big_str_table(d) and is_strlike(k):
        has, get = big_dict_fns(I, d)
        if not I.ctx.branch(has(zs(k))):
            raise PyRaise("KeyError", "symbolic key not in table", site=node)
        return mk_str(get(zs(k)))
    cands = [(kk, v) for kk, v in d.items() if I.eq(k, kk) is not False]
    hit = z_or([I.eq(k, kk) for kk, v in cands])
    if not I.ctx.branch(hit):
        raise PyRaise("KeyError", "symbolic key not in constant dict", site=node)
    vals = [v for _, v in cands]
    if all(isinstance(v, str) for v in vals):
        acc = z3.StringVal(vals[-1])
        for kk, v in reversed(cands[:-1]):
            acc = z3.If(I.eq(k, kk), z3.StringVal(v), acc)
        return mk_str(acc)
    if all(isinstance(v, int) and not isinstance(v, bool) for v in vals):
        acc = z3.IntVal(vals[-1])
        for kk, v in reversed(cands[:-1]):
            acc = z3.If(I.eq(k, kk), z3.IntVal(v), acc)
        return mk_int(acc)
    for kk, v in cands:
        if I.ctx.branch(I.eq(k, kk)):
            return v
    raise PathEnd("infeasible")


def dict_eq(I, a, b):
    if a.abstract is not None or b.abstract is not None:
        raise OutOfReach("equality of abstract maps")
    keys = list(a.entries) + [k for k in b.entries if k not in a.entries]
    parts = []
    for k in keys:
        ea, eb = a.entries.get(k), b.entries.get(k)
        pa = ea[1] if ea else False
        pb = eb[1] if eb else False
        if ea and eb:
            parts.append(z_or([z_and([pa, pb, I.eq(ea[0], eb[0])]), z_and([z_not(pa), z_not(pb)])]))
        else:
            parts.append(z_not(pa if ea else pb))
    return z_and(parts)


def norm_index(i, n):
    """python index normalisation for slicing bounds: clamp into [0, n]; i, n z3 Int terms."""
    return z3.If(i < 0, z3.If(n + i < 0, 0, n + i), z3.If(i > n, n, i))


def concat_parts(z):
    if z.decl().kind() == z3.Z3_OP_SEQ_CONCAT:
        out = []
        for c in z.children():
            out.extend(concat_parts(c))
        return out
    return [z]


def mk_concat(parts):
    parts = [p for p in parts if not (z3.is_string_value(p) and p.as_string() == "")]
    if not parts:
        return z3.StringVal("")
    if len(parts) == 1:
        return parts[0]
    return z3.Concat(*parts)


def split_parts(ctx, z, pos):
    """Split the string term z at position pos *syntactically* when pos falls on a boundary of its
    concatenation structure (or a known distance into one part).  -> (left, right) or None."""
    parts = concat_parts(z)
    if len(parts) == 1 and not z3.is_int_value(z3.simplify(pos)):
        d = z3.simplify(pos - z3.Length(z))
        if z3.is_int_value(d) and d.as_long() == 0:
            return z, z3.StringVal("")
        return None
    acc = z3.IntVal(0)
    for i, p in enumerate(parts):
        d = z3.simplify(pos - acc)
        if not z3.is_int_value(d):
            # a registered word equation  p == a ++ b  with |a| == d splits the part itself
            for a, b in ctx.decomps.get(p.get_id(), []):
                dd = z3.simplify(d - z3.Length(a))
                if z3.is_int_value(dd) and dd.as_long() == 0:
                    return mk_concat(parts[:i] + [a]), mk_concat([b] + parts[i + 1:])
        if z3.is_int_value(d):
            k = d.as_long()
            if k == 0:
                return mk_concat(parts[:i]), mk_concat(parts[i:])
            if k > 0:
                lp = z3.simplify(z3.Length(p))
                known = (z3.is_int_value(lp) and lp.as_long() >= k) or (
                    not z3.is_int_value(lp) and ctx.check(z3.Length(p) < k)[0] == "unsat")
                if known:
                    return (mk_concat(parts[:i] + [z3.SubString(p, 0, k)]),
                            mk_concat([z3.SubString(p, k, z3.Length(p) - k)] + parts[i + 1:]))
                return None
            if i >= 1:
                # a known distance before this boundary: inside the previous part, counted from its end
                q = parts[i - 1]
                if ctx.check(z3.Length(q) < -k)[0] == "unsat":
                    lq = z3.Length(q)
                    return (mk_concat(parts[:i - 1] + [z3.SubString(q, 0, lq + k)]),
                            mk_concat([z3.SubString(q, lq + k, -k)] + parts[i:]))
            return None
        acc = acc + z3.Length(p)
    d = z3.simplify(pos - acc)
    if z3.is_int_value(d) and d.as_long() == 0:
        return z, z3.StringVal("")
    if z3.is_int_value(d) and d.as_long() < 0 and parts:
        k = d.as_long()
        q = parts[-1]
        if ctx.check(z3.Length(q) < -k)[0] == "unsat":
            lq = z3.Length(q)
            return (mk_concat(parts[:-1] + [z3.SubString(q, 0, lq + k)]), z3.SubString(q, lq + k, -k))
    return None


def str_slice(I, s, sl):
    if sl.step is not None and sl.step != 1:
        if isinstance(s, str) and all(x is None or isinstance(x, int) for x in (sl.lo, sl.hi, sl.step)):
            return s[sl.lo:sl.hi:sl.step]
        raise OutOfReach("string slice with step")
    if isinstance(s, str) and all(x is None or isinstance(x, int) for x in (sl.lo, sl.hi)):
        return s[sl.lo:sl.hi]
    z = zs(s)
    n = z3.Length(z)
    if not z3.is_string_value(z) and (sl.step is None) and sl.lo is not None and not (isinstance(sl.lo, int) and sl.lo < 0):
        # structural fast path: the slice bounds fall on the concatenation structure of the term
        cut = split_parts(I.ctx, z, zi(sl.lo))
        if cut is not None:
            right = cut[1]
            if sl.hi is None:
                return mk_str(right)
            if not (isinstance(sl.hi, int) and sl.hi < 0):
                cut2 = split_parts(I.ctx, right, zi(sl.hi) - zi(sl.lo))
                if cut2 is not None:
                    return mk_str(cut2[0])
    if not z3.is_string_value(z) and (sl.step is None) and sl.lo is None and sl.hi is not None and not (isinstance(sl.hi, int) and sl.hi < 0):
        cut = split_parts(I.ctx, z, zi(sl.hi))
        if cut is not None:
            return mk_str(cut[0])

    if not z3.is_string_value(z) and sl.step is None:
        # z[:-k] / z[-k:] for a concrete k when |z| >= k is known: a shared word equation z == init ++ tail
        if sl.lo is None and isinstance(sl.hi, int) and sl.hi < 0 and I.ctx.check(n < -sl.hi)[0] == "unsat":
            return mk_str(I.ctx.end_decomp(z, -sl.hi)[0])
        if sl.hi is None and isinstance(sl.lo, int) and sl.lo < 0 and I.ctx.check(n < -sl.lo)[0] == "unsat":
            return mk_str(I.ctx.end_decomp(z, -sl.lo)[1])

    def bound(b, default):
        if b is None:
            return default
        zb_ = zi(b)
        if isinstance(b, int):
            if b == 0:
                return z3.IntVal(0)
            if b > 0:
                if I.ctx.check(n < b)[0] == "unsat":
                    return z3.IntVal(b)
                return z3.If(n < b, n, z3.IntVal(b))
            if I.ctx.check(n + b < 0)[0] == "unsat":
                return n + b
            return z3.If(n + b < 0, z3.IntVal(0), n + b)
        # symbolic bound: if the path condition already puts it inside [0, n] use it as it is
        if I.ctx.check(z3.Not(z3.And(zb_ >= 0, zb_ <= n)))[0] == "unsat":
            return zb_
        return norm_index(zb_, n)
    lo = bound(sl.lo, z3.IntVal(0))
    hi = bound(sl.hi, n)
    if I.ctx.check(z3.Not(hi >= lo))[0] == "unsat":
        r = z3.SubString(z, lo, hi - lo)
        # instances of the decomposition lemma  z == z[:lo] ++ z[lo:hi] ++ z[hi:]  (sound; helps the solver)
        if sl.hi is None and not z3.is_string_value(z):
            inr = z3.And(lo >= 0, lo <= n)
            I.ctx.assume(z3.Implies(inr, z == z3.Concat(z3.SubString(z, 0, lo), r)), kind="lib")
            I.ctx.assume(z3.Implies(inr, z3.Length(r) == n - lo), kind="lib")
        elif sl.lo is None and not z3.is_string_value(z):
            inr = z3.And(hi >= 0, hi <= n)
            I.ctx.assume(z3.Implies(inr, z == z3.Concat(r, z3.SubString(z, hi, n - hi))), kind="lib")
            I.ctx.assume(z3.Implies(inr, z3.Length(r) == hi), kind="lib")
        return mk_str(r)
    return mk_str(z3.If(hi > lo, z3.SubString(z, lo, hi - lo), z3.StringVal("")))


def char_at_facts(ctx, z, pos, depth=0):
    """Instances of  (a ++ b)[i] == a[i]  (i < |a|),  (a ++ b)[i] == b[i - |a|]  (i >= |a|)  and
    w[lo:lo+n][i] == w[lo + i]: true facts the sequence solver does not find quickly by itself."""
    if depth > 3 or z3.is_string_value(z):
        return
    k = z.decl().kind()
    here = z3.SubString(z, pos, 1)
    if k == z3.Z3_OP_SEQ_CONCAT:
        args = z.children()
        a = args[0]
        b = args[1] if len(args) == 2 else z3.Concat(*args[1:])
        la = z3.Length(a)
        ctx.assume(z3.Implies(z3.And(pos >= 0, pos < la), here == z3.SubString(a, pos, 1)), kind="lib")
        ctx.assume(z3.Implies(z3.And(pos >= la, pos < la + z3.Length(b)), here == z3.SubString(b, pos - la, 1)), kind="lib")
        char_at_facts(ctx, a, pos, depth + 1)
    elif k == z3.Z3_OP_SEQ_EXTRACT:
        w, lo, ln = z.children()
        ctx.assume(z3.Implies(z3.And(pos >= 0, pos < ln, lo >= 0, lo + pos < z3.Length(w)),
                              here == z3.SubString(w, lo + pos, 1)), kind="lib")
        char_at_facts(ctx, w, lo + pos, depth + 1)


def getitem(I, v, idx, node=None):
    ctx = I.ctx
    if isinstance(v, DictV):
        return dict_get(I, v, idx, node)
    if isinstance(v, dict):
        return const_dict_get(I, v, idx, node)
    if isinstance(v, Namespace):
        return v.d[idx]
    if isinstance(idx, SliceV):
        if is_strlike(v):
            return str_slice(I, v, idx)
        if isinstance(v, (bytes, SBytes)):
            if isinstance(v, bytes) and all(x is None or isinstance(x, int) for x in (idx.lo, idx.hi, idx.step)):
                return v[idx.lo:idx.hi:idx.step]
            r = str_slice(I, SStr(zbytes(v)), SliceV(idx.lo, idx.hi, idx.step))
            return SBytes(zs(r))
        if isinstance(v, tuple) and all(x is None or isinstance(x, int) for x in (idx.lo, idx.hi, idx.step)):
            return v[idx.lo:idx.hi:idx.step]
        if isinstance(v, ListV) and all(x is None or isinstance(x, int) for x in (idx.lo, idx.hi, idx.step)):
            if v.prefix is None:
                return ListV(v.items[idx.lo:idx.hi:idx.step])
            # [a:] with a >= 0 is not expressible without knowing the prefix length; [:-k] with k <= len(items)
            if idx.step is None and idx.lo is None and idx.hi is not None and idx.hi < 0 and -idx.hi <= len(v.items):
                return ListV(v.items[:idx.hi], prefix=v.prefix)
            if idx.step is None and idx.hi is None and idx.lo is not None and idx.lo < 0 and -idx.lo <= len(v.items):
                return ListV(v.items[idx.lo:])
            raise OutOfReach("slice of symbolic-length list")
        if isinstance(v, ListV) and v.prefix is not None and idx.step is None and idx.hi is None and is_intlike(idx.lo):
            # l[e:] with symbolic e: inside the prefix, or e == len(prefix) + k
            e = zi(idx.lo)
            n = z3.Length(v.prefix)
            if not ctx.branch(e >= 0):
                raise OutOfReach("negative symbolic slice start")
            if ctx.branch(e <= n):
                return ListV(list(v.items), prefix=z3.Extract(v.prefix, e, n - e))
            for k in range(1, len(v.items) + 1):
                if ctx.branch(e == n + k):
                    return ListV(v.items[k:])
            return ListV([])
        raise OutOfReach("slice of %r" % (v,))
    if isinstance(v, (tuple, ListV)):
        items = v if isinstance(v, tuple) else v.items
        if isinstance(v, ListV) and v.prefix is not None:
            if isinstance(idx, int) and idx < 0 and -idx <= len(items):
                return items[idx]
            if isinstance(idx, int) and idx < 0:
                k = -idx - len(items)      # k-th from the end of the prefix
                n = pfx_len(v)
                if not ctx.branch(n >= k):
                    raise PyRaise("IndexError", "list index out of range", site=node)
                return pfx_elem(v, n - k)
            if is_intlike(idx):
                n = pfx_len(v)
                i = zi(idx)
                if not ctx.branch(i >= 0):
                    raise OutOfReach("negative symbolic index into symbolic-length list")
                if ctx.branch(i < n):
                    return pfx_elem(v, i)
                for k in range(len(items)):
                    if ctx.branch(i == n + k):
                        return items[k]
                raise PyRaise("IndexError", "list index out of range", site=node)
            raise OutOfReach("symbolic index into symbolic-length list")
        if isinstance(idx, int):
            if -len(items) <= idx < len(items):
                return items[idx]
            raise PyRaise("IndexError", "index %d out of range(%d)" % (idx, len(items)), site=node)
        if isinstance(idx, SInt):
            n = len(items)
            ok = z3.And(idx.z >= -n, idx.z < n)
            if not ctx.branch(ok):
                raise PyRaise("IndexError", "symbolic index out of range", site=node)
            for k in range(n):
                if ctx.branch(z3.Or(idx.z == k, idx.z == k - n)):
                    return items[k]
            raise PathEnd("infeasible")
        raise PyRaise("TypeError", "list indices must be integers", site=node)
    if is_strlike(v):
        if not is_intlike(idx):
            raise PyRaise("TypeError", "string indices must be integers", site=node)
        if isinstance(v, str) and isinstance(idx, int):
            if -len(v) <= idx < len(v):
                return v[idx]
            raise PyRaise("IndexError", "string index out of range", site=node)
        z = zs(v)
        n = z3.Length(z)
        i = zi(idx)
        ok = z3.And(i >= -n, i < n)
        if not ctx.branch(ok):
            raise PyRaise("IndexError", "string index out of range", site=node)
        pos = i if (isinstance(idx, int) and idx >= 0) else z3.If(i < 0, n + i, i)
        if isinstance(idx, int) and idx < 0 and not z3.is_string_value(z):
            tail = ctx.end_decomp(z, -idx)[1]
            return SStr(tail, nonempty=True) if idx == -1 else mk_str(z3.SubString(tail, 0, 1))
        if not z3.is_string_value(z):
            cut = split_parts(ctx, z, z3.simplify(pos))
            if cut is not None:
                first = concat_parts(cut[1])[0]
                lf = z3.simplify(z3.Length(first))
                simple = first.decl().kind() not in (z3.Z3_OP_SEQ_EXTRACT, z3.Z3_OP_SEQ_AT, z3.Z3_OP_ITE)
                if simple and ((z3.is_int_value(lf) and lf.as_long() >= 1) or ctx.check(z3.Length(first) < 1)[0] == "unsat"):
                    return mk_str(z3.SubString(first, 0, 1))
        char_at_facts(ctx, z, pos)
        return mk_str(z3.SubString(z, pos, 1))
    if isinstance(v, (bytes, SBytes)):
        if isinstance(v, bytes) and isinstance(idx, int):
            if -len(v) <= idx < len(v):
                return v[idx]
            raise PyRaise("IndexError", "index out of range", site=node)
        z = zbytes(v)
        n = z3.Length(z)
        i = zi(idx)
        if not ctx.branch(z3.And(i >= -n, i < n)):
            raise PyRaise("IndexError", "index out of range", site=node)
        pos = z3.If(i < 0, n + i, i)
        return mk_int(z3.StrToCode(z3.SubString(z, pos, 1)))
    if isinstance(v, SStrList):
        n = z3.Length(v.z)
        i = zi(idx)
        if not ctx.branch(z3.And(i >= -n, i < n)):
            raise PyRaise("IndexError", "index out of range", site=node)
        return mk_str(v.z[z3.If(i < 0, n + i, i)])
    if isinstance(v, MatchV):
        return v.groups.get(idx)
    if isinstance(v, Obj):
        m = I.find_method(v, "__getitem__")
        if m is not None:
            return I.call(m, [idx], {})
        if isinstance(v.cls, str) and (v.cls, "__getitem__") in ABSTRACT_METHODS:
            return ABSTRACT_METHODS[(v.cls, "__getitem__")](I, v, [idx], {})
    if v is None:
        raise PyRaise("TypeError", "'NoneType' object is not subscriptable", site=node)
    raise OutOfReach("subscript of %r" % (v,))


def setitem(I, v, idx, val, node=None):
    if isinstance(v, DictV):
        return dict_set(I, v, idx, val)
    if isinstance(v, ListV):
        if isinstance(idx, int):
            if v.prefix is not None:
                if idx < 0 and -idx <= len(v.items):
                    v.items[idx] = val
                    return
                raise OutOfReach("store into symbolic-length list")
            if -len(v.items) <= idx < len(v.items):
                v.items[idx] = val
                return
            raise PyRaise("IndexError", "list assignment index out of range", site=node)
        raise OutOfReach("list store with symbolic index")
    if isinstance(v, Obj):
        m = I.find_method(v, "__setitem__")
        if m is not None:
            return I.call(m, [idx, val], {})
    raise OutOfReach("item store on %r" % (v,))


def delitem(I, v, idx, node=None):
    if isinstance(v, DictV) and v.sym_items is not None:
        for i, (k, x) in enumerate(v.sym_items):
            if I.ctx.branch(I.eq(idx, k)):
                del v.sym_items[i]
                return
        if key_concrete(idx) and idx in v.entries:
            del v.entries[idx]
            return
        raise PyRaise("KeyError", "key not in dict", site=node)
    if isinstance(v, DictV):
        if v.abstract is not None:
            return v.abstract.delete(I, idx, node)
        if key_concrete(idx):
            e = v.entries.get(idx)
            if e is None:
                raise PyRaise("KeyError", repr(idx), site=node)
            if e[1] is not True and not I.ctx.branch(e[1]):
                raise PyRaise("KeyError", repr(idx), site=node)
            del v.entries[idx]
            return
        raise OutOfReach("del with symbolic key")
    if isinstance(v, ListV) and isinstance(idx, int) and v.prefix is None:
        if -len(v.items) <= idx < len(v.items):
            del v.items[idx]
            return
        raise PyRaise("IndexError", "list index out of range", site=node)
    if isinstance(v, ListV) and isinstance(idx, SliceV) and v.prefix is None and idx.is_full():
        v.items[:] = []
        return
    if isinstance(v, Obj):
        m = I.find_method(v, "__delitem__")
        if m is not None:
            return I.call(m, [idx], {})
    raise OutOfReach("del item on %r" % (v,))


# ---------------------------------------------------------------------- operators
def binop(I, op, a, b, node=None):
    if isinstance(op, ast.Add):
        if is_strlike(a) and is_strlike(b):
            if isinstance(a, str) and isinstance(b, str):
                return a + b
            return mk_str(z3.Concat(zs(a), zs(b)))
        if is_intlike(a) and is_intlike(b):
            if isinstance(a, int) and isinstance(b, int):
                return a + b
            return mk_int(zi(a) + zi(b))
        if isinstance(a, tuple) and isinstance(b, tuple):
            return a + b
        if isinstance(a, (bytes, SBytes)) and isinstance(b, (bytes, SBytes)):
            if isinstance(a, bytes) and isinstance(b, bytes):
                return a + b
            return SBytes(z3.Concat(zbytes(a), zbytes(b)))
        if isinstance(a, ListV) and isinstance(b, ListV):
            if b.prefix is not None:
                raise OutOfReach("list concat with symbolic right operand")
            return ListV(a.items + b.items, prefix=a.prefix)
        if isinstance(a, ListV) and isinstance(b, tuple) or isinstance(a, tuple) and isinstance(b, ListV):
            raise PyRaise("TypeError", "can only concatenate list to list", site=node)
        if isinstance(a, SStrList) and isinstance(b, SStrList):
            return SStrList(z3.Concat(a.z, b.z))
        if (a is None or b is None) or (is_strlike(a) != is_strlike(b)):
            raise PyRaise("TypeError", "unsupported operand types for +: %r %r" % (type(a).__name__, type(b).__name__), site=node)
        raise OutOfReach("+ on %r, %r" % (a, b))
    if isinstance(op, (ast.Sub, ast.BitAnd)) and isinstance(a, SetV) and (isinstance(b, (DictV, frozenset, SetV))):
        # set difference / intersection with a (possibly abstract) set: decide membership element-wise
        keep = []
        for x in a.items:
            if isinstance(b, DictV):
                m = dict_has(I, b, x)
            else:
                m = I.contains(x, b)
            inb = I.ctx.branch(m)
            if inb == isinstance(op, ast.BitAnd):
                keep.append(x)
        return SetV(keep)
    if isinstance(op, ast.Sub):
        if is_intlike(a) and is_intlike(b):
            if isinstance(a, int) and isinstance(b, int):
                return a - b
            return mk_int(zi(a) - zi(b))
        if isinstance(a, frozenset) and isinstance(b, frozenset):
            return a - b
        raise OutOfReach("- on %r, %r" % (a, b))
    if isinstance(op, ast.Mult):
        if is_intlike(a) and is_intlike(b):
            if isinstance(a, int) and isinstance(b, int):
                return a * b
            return mk_int(zi(a) * zi(b))
        if isinstance(a, str) and isinstance(b, int):
            return a * b
        if isinstance(a, ListV) and isinstance(b, int) and a.prefix is None:
            return ListV(a.items * b)
        raise OutOfReach("* on %r, %r" % (a, b))
    if isinstance(op, ast.Mod):
        if is_strlike(a):
            return str_format(I, a, b, node)
        if is_intlike(a) and is_intlike(b):
            if isinstance(a, int) and isinstance(b, int):
                if b == 0:
                    raise PyRaise("ZeroDivisionError", "", site=node)
                return a % b
            if isinstance(b, int) and b > 0:
                return mk_int(zi(a) % b)
        raise OutOfReach("% on %r, %r" % (a, b))
    if isinstance(op, ast.FloorDiv):
        if isinstance(a, int) and isinstance(b, int):
            if b == 0:
                raise PyRaise("ZeroDivisionError", "", site=node)
            return a // b
        if is_intlike(a) and isinstance(b, int) and b > 0:
            return mk_int(zi(a) / b)
        raise OutOfReach("// on %r, %r" % (a, b))
    if isinstance(op, (ast.BitOr, ast.BitAnd, ast.RShift, ast.LShift, ast.BitXor)):
        if isinstance(a, int) and isinstance(b, int):
            return {ast.BitOr: lambda: a | b, ast.BitAnd: lambda: a & b, ast.RShift: lambda: a >> b,
                    ast.LShift: lambda: a << b, ast.BitXor: lambda: a ^ b}[type(op)]()
        if isinstance(a, frozenset) and isinstance(b, frozenset):
            return {ast.BitOr: lambda: a | b, ast.BitAnd: lambda: a & b, ast.BitXor: lambda: a ^ b}[type(op)]()
        if isinstance(op, ast.RShift) and is_intlike(a) and isinstance(b, int):
            return mk_int(zi(a) / (1 << b))      # valid for a >= 0 and for negative a (floor division)
        if isinstance(op, ast.BitAnd) and is_intlike(a) and isinstance(b, int) and (b & (b + 1)) == 0:
            return mk_int(zi(a) % (b + 1))       # a & (2^k - 1) == a mod 2^k (also for negative a in Python)
        if is_boollike(a) and is_boollike(b) and isinstance(op, (ast.BitXor, ast.BitAnd, ast.BitOr)):
            # bool ^ bool, & and | are the logical operators (the result is a bool in Python too)
            za, zb_ = zb(a), zb(b)
            if isinstance(op, ast.BitXor):
                return mk_bool(z3.Xor(za, zb_))
            return mk_bool(z3.And(za, zb_) if isinstance(op, ast.BitAnd) else z3.Or(za, zb_))
        if isinstance(op, ast.BitOr) and isinstance(a, int) and is_intlike(b):
            raise OutOfReach("symbolic |")
        raise OutOfReach("bit operator on symbolic values")
    raise OutOfReach("operator %s" % type(op).__name__)


def order(I, op, a, b):
    if is_intlike(a) and is_intlike(b) or (is_boollike(a) and is_intlike(b)) or (is_intlike(a) and is_boollike(b)):
        if isinstance(a, (int, bool)) and isinstance(b, (int, bool)):
            return {ast.Lt: a < b, ast.LtE: a <= b, ast.Gt: a > b, ast.GtE: a >= b}[type(op)]
        x, y = zi(a), zi(b)
        return {ast.Lt: lambda: x < y, ast.LtE: lambda: x <= y, ast.Gt: lambda: x > y, ast.GtE: lambda: x >= y}[type(op)]()
    if isinstance(a, str) and isinstance(b, str):
        return {ast.Lt: a < b, ast.LtE: a <= b, ast.Gt: a > b, ast.GtE: a >= b}[type(op)]
    if is_strlike(a) and is_strlike(b):
        x, y = zs(a), zs(b)
        # z3's str.< / str.<= are lexicographic by code point, as Python's
        return {ast.Lt: lambda: x < y, ast.LtE: lambda: x <= y, ast.Gt: lambda: y < x, ast.GtE: lambda: y <= x}[type(op)]()
    if isinstance(a, tuple) and isinstance(b, tuple) and len(a) == len(b):
        # lexicographic
        strict = isinstance(op, (ast.Lt, ast.Gt))
        lt = isinstance(op, (ast.Lt, ast.LtE))
        acc = False if strict else True
        for x, y in reversed(list(zip(a, b))):
            less = order(I, ast.Lt() if lt else ast.Gt(), x, y)
            acc = z_or([less, z_and([I.eq(x, y), acc])])
        return acc
    if a is None or b is None:
        raise PyRaise("TypeError", "ordering comparison with None")
    if is_strlike(a) != is_strlike(b):
        raise PyRaise("TypeError", "ordering comparison between str and non-str")
    raise OutOfReach("ordering of %r, %r" % (a, b))


def str_format(I, fmt, arg, node=None):
    if not isinstance(fmt, str):
        if isinstance(arg, DictV):
            I.ctx.notes.append("assumed: %-formatting with a mapping succeeds (ground obligations C16/sites)")
            return I.ctx.fresh("formatted")
        raise OutOfReach("symbolic format string")
    args = list(arg) if isinstance(arg, tuple) else [arg]
    if all(not isinstance(x, (Sym, Obj, DictV, ListV)) for x in args) and not isinstance(arg, (DictV,)):
        try:
            return fmt % (arg if isinstance(arg, tuple) else (arg,))
        except (TypeError, ValueError) as e:
            raise PyRaise(type(e).__name__, str(e), site=node)
    if isinstance(arg, DictV):
        # formatting with a mapping: the result string is not modelled (fresh); that it does not
        # raise is a ground obligation on the call sites (C16/sites/...), recorded as assumed here.
        I.ctx.notes.append("assumed: %-formatting with a mapping succeeds (ground obligations C16/sites)")
        return I.ctx.fresh("formatted")
    # literal format with %s / %d / %05X over symbolic args
    import re as _re
    parts = _re.split(r"(%(?:0?\d*)[sdxXr%])", fmt)
    out = []
    ai = 0
    for p in parts:
        if not p:
            continue
        if p == "%%":
            out.append(z3.StringVal("%"))
        elif p.startswith("%") and len(p) >= 2 and p[-1] in "sdxX":
            if ai >= len(args):
                raise PyRaise("TypeError", "not enough arguments for format string", site=node)
            a = args[ai]
            ai += 1
            if p == "%s":
                if is_strlike(a):
                    out.append(zs(a))
                elif is_intlike(a):
                    out.append(int_to_str(zi(a)))
                elif a is None or isinstance(a, bool):
                    out.append(z3.StringVal(str(a)))
                else:
                    out.append(I.ctx.fresh("str_of_object").z)      # str() of an object: not modelled
            elif p == "%d" and is_intlike(a):
                out.append(int_to_str(zi(a)))
            else:
                fn = I.ctx.opaque_fn("fmt_" + p.strip("%"), [z3.IntSort()], z3.StringSort())
                out.append(fn(zi(a)))
        elif "%" in p:
            raise OutOfReach("format directive in %r" % fmt)
        else:
            out.append(z3.StringVal(p))
    if ai != len(args):
        raise PyRaise("TypeError", "not all arguments converted during string formatting", site=node)
    return mk_str(z3.Concat(*out) if len(out) > 1 else out[0])


def int_to_str(z):
    return z3.If(z >= 0, z3.IntToStr(z), z3.Concat(z3.StringVal("-"), z3.IntToStr(-z)))


# ---------------------------------------------------------------------- str methods
def _ascii_ws():
    return " \t\n\r\x0b\x0c"


def call_method(I, recv, name, args, kwargs, node=None):
    ctx = I.ctx
    if isinstance(recv, (str, SStr)):
        return str_method(I, recv, name, args, kwargs, node)
    if isinstance(recv, ListV):
        return list_method(I, recv, name, args, kwargs, node)
    if isinstance(recv, DictV):
        return dict_method(I, recv, name, args, kwargs, node)
    if isinstance(recv, dict):
        if name == "get":
            k = args[0]
            default = args[1] if len(args) > 1 else None
            if key_concrete(k):
                return recv.get(k, default)
            if ctx.branch(z_or([I.eq(k, kk) for kk in recv])):
                return const_dict_get(I, recv, k, node)
            return default
        if name == "items":
            return tuple(recv.items())
        if name == "keys":
            return tuple(recv.keys())
        if name == "values":
            return tuple(recv.values())
        if name == "copy":
            return DictV(dict(recv))
        raise OutOfReach("method %s of constant dict" % name)
    if isinstance(recv, (tuple, frozenset)):
        if name == "index" and isinstance(recv, tuple):
            for i, x in enumerate(recv):
                if ctx.branch(I.eq(args[0], x)):
                    return i
            raise PyRaise("ValueError", "tuple.index(x): x not in tuple", site=node)
        if name == "count" and isinstance(recv, tuple) and key_concrete(args[0]):
            return recv.count(args[0])
        if name in ("union",) and isinstance(recv, frozenset):
            return recv.union(*args)
        raise OutOfReach("method %s of %s" % (name, type(recv).__name__))
    if isinstance(recv, SetV):
        if name == "add":
            recv.items.append(args[0])
            return None
        if name == "remove":
            for i, x in enumerate(recv.items):
                if ctx.branch(I.eq(args[0], x)):
                    del recv.items[i]
                    return None
            raise PyRaise("KeyError", "set.remove(x): x not in set", site=node)
        raise OutOfReach("method %s of set" % name)
    if isinstance(recv, ReConst):
        from . import relib
        return relib.re_method(I, recv, name, args, kwargs, node)
    if isinstance(recv, MatchV):
        from . import relib
        return relib.match_method(I, recv, name, args, kwargs, node)
    if isinstance(recv, (bytes, SBytes)):
        return bytes_method(I, recv, name, args, kwargs, node)
    if isinstance(recv, SStrList):
        raise OutOfReach("method %s of list snapshot" % name)
    if isinstance(recv, Obj) and isinstance(recv.cls, str):
        impl = ABSTRACT_METHODS.get((recv.cls, name))
        if impl is not None:
            return impl(I, recv, args, kwargs)
    raise OutOfReach("method %s of %r" % (name, recv))


def str_method(I, s, name, args, kwargs, node=None):
    ctx = I.ctx
    conc = isinstance(s, str) and all(not isinstance(a, (Sym, ListV, DictV, Obj)) for a in args)
    if conc and name in ("lower", "upper", "startswith", "endswith", "find", "rfind", "count", "replace", "strip",
                         "lstrip", "rstrip", "split", "isdigit", "isalpha", "index", "title", "encode", "isspace",
                         "splitlines", "partition", "rpartition", "format", "zfill", "isalnum"):
        try:
            r = getattr(s, name)(*args, **kwargs)
        except ValueError as e:
            raise PyRaise("ValueError", str(e), site=node)
        except UnicodeEncodeError as e:
            raise PyRaise("UnicodeEncodeError", str(e), site=node)
        if isinstance(r, list):
            return ListV(r)
        return r
    z = zs(s)
    if name == "join":
        seq = args[0]
        if isinstance(seq, ListV) and seq.prefix is not None:
            if s != "":
                raise OutOfReach("join with separator over symbolic list")
            for x in seq.items:
                if not is_strlike(x):
                    raise PyRaise("TypeError", "sequence item: expected str instance, %s found" % type(x).__name__, site=node)
            parts = [pfx_joined(ctx, seq)] + [zs(x) for x in seq.items]
            return mk_str(z3.Concat(*parts) if len(parts) > 1 else parts[0])
        if isinstance(seq, SStrList):
            if s != "":
                raise OutOfReach("join with separator over symbolic list")
            return mk_str(ctx.joined(seq.z))
        items = iterate(I, seq)
        for x in items:
            if not is_strlike(x):
                raise PyRaise("TypeError", "sequence item: expected str instance, %s found" % type(x).__name__, site=node)
        if not items:
            return ""
        parts = []
        for i, x in enumerate(items):
            if i:
                parts.append(z)
            parts.append(zs(x))
        return mk_str(z3.Concat(*parts) if len(parts) > 1 else parts[0])
    if name in ("startswith", "endswith"):
        p = args[0]
        if len(args) > 1:
            raise OutOfReach("startswith with start index")
        fn = z3.PrefixOf if name == "startswith" else z3.SuffixOf
        if isinstance(p, tuple):
            return mk_bool(z_or([fn(zs(x), z) for x in p]))
        if not is_strlike(p):
            raise PyRaise("TypeError", "startswith first arg must be str or a tuple of str", site=node)
        return mk_bool(fn(zs(p), z))
    if name == "lower":
        return mk_str(ctx.str_fn("py_lower", z))
    if name == "upper":
        return mk_str(ctx.str_fn("py_upper", z))
    if name == "translate":
        table = args[0]
        return mk_str(ctx.translate(z, table))
    if name == "replace":
        old, new = args[0], args[1]
        if len(args) > 2:
            raise OutOfReach("replace with count")
        return mk_str(ctx.replace_all(z, zs(old), zs(new)))
    if name in ("find", "index"):
        sub = args[0]
        start = zi(args[1]) if len(args) > 1 else z3.IntVal(0)
        if len(args) > 2:
            raise OutOfReach("find with end")
        r = z3.IndexOf(z, zs(sub), start)
        if name == "index":
            if not ctx.branch(r >= 0):
                raise PyRaise("ValueError", "substring not found", site=node)
        return mk_int(r)
    if name == "rfind":
        if len(args) == 1:
            return mk_int(ctx.rfind_fn(z, zs(args[0])))
        if len(args) == 3 and args[1] == 0:
            # rfind(sub, 0, end): last index in s[:end]
            pre = zs(str_slice(I, s, SliceV(None, args[2], None)))
            return mk_int(ctx.rfind_fn(pre, zs(args[0])))
        raise OutOfReach("rfind form")
    if name == "count":
        sub = args[0]
        if len(args) == 3 and args[1] == 0:
            pre = zs(str_slice(I, s, SliceV(None, args[2], None)))
            return mk_int(ctx.count_fn(pre, zs(sub)))
        if len(args) == 1:
            return mk_int(ctx.count_fn(z, zs(sub)))
        raise OutOfReach("count form")
    if name in ("strip", "lstrip", "rstrip"):
        chars = args[0] if args else None
        return mk_str(ctx.strip_fn(name, z, chars))
    if name == "isdigit" or name == "isalpha" or name == "isspace" or name == "isalnum":
        return mk_bool(ctx.str_pred(name, z))
    if name == "encode":
        enc = args[0] if args else "utf-8"
        if isinstance(enc, str) and enc.lower().replace("_", "-") in ("utf-8", "utf8") and len(args) <= 1 and not kwargs:
            # an uninterpreted function of the string: nothing about the bytes is known but that equal strings
            # encode alike (lone surrogates would raise: stated assumption "text is encodable")
            return SBytes(ctx.str_fn("utf8_encode", z))
        raise OutOfReach("str.encode on symbolic string")
    if name == "split":
        raise OutOfReach("str.split on symbolic string")
    raise OutOfReach("str method %s" % name)


def bytes_method(I, b, name, args, kwargs, node=None):
    ctx = I.ctx
    if name == "join" and isinstance(b, bytes) and b == b"" and len(args) == 1 and isinstance(args[0], ListV) and args[0].prefix is None:
        items = args[0].items
        if not items:
            return b""
        if all(isinstance(x, bytes) for x in items):
            return b"".join(items)
        zsq = [zbytes(x) for x in items]
        return SBytes(z3.Concat(*zsq) if len(zsq) > 1 else zsq[0])
    if isinstance(b, bytes) and all(not isinstance(a, (Sym, ListV)) for a in args):
        try:
            r = getattr(b, name)(*args, **kwargs)
        except UnicodeDecodeError as e:
            raise PyRaise("UnicodeDecodeError", str(e), site=node)
        except ValueError as e:
            raise PyRaise("ValueError", str(e), site=node)
        return r
    z = zbytes(b)
    if name == "startswith":
        p = args[0]
        if isinstance(p, tuple):
            return mk_bool(z_or([z3.PrefixOf(zbytes(x), z) for x in p]))
        return mk_bool(z3.PrefixOf(zbytes(p), z))
    if name == "endswith":
        return mk_bool(z3.SuffixOf(zbytes(args[0]), z))
    if name == "lower":
        return SBytes(ctx.str_fn("bytes_lower", z))
    if name == "find":
        return mk_int(z3.IndexOf(z, zbytes(args[0]), zi(args[1]) if len(args) > 1 else z3.IntVal(0)))
    if name == "decode":
        enc = args[0] if args else "utf-8"
        if enc == "ascii" or enc == "latin-1":
            if enc == "ascii":
                ok = z3.InRe(z, z3.Star(z3.Range(z3.StringVal("\x00"), z3.StringVal("\x7f"))))
                if not ctx.branch(ok):
                    raise PyRaise("UnicodeDecodeError", "ascii", site=node)
            return mk_str(z)
        raise OutOfReach("bytes.decode(%r) on symbolic bytes" % (enc,))
    raise OutOfReach("bytes method %s" % name)


def list_method(I, l, name, args, kwargs, node=None):
    ctx = I.ctx
    if name == "append":
        l.items.append(args[0])
        return None
    if name == "extend":
        l.items.extend(iterate(I, args[0]))
        return None
    if name == "appendleft":
        if l.prefix is not None:
            raise OutOfReach("appendleft on symbolic-length deque")
        l.items.insert(0, args[0])
        return None
    if name == "insert":
        if l.prefix is not None or not isinstance(args[0], int):
            raise OutOfReach("insert on symbolic list/index")
        l.items.insert(args[0], args[1])
        return None
    if name in ("pop", "popleft"):
        if name == "pop" and args and args[0] != -1:
            if l.prefix is None and isinstance(args[0], int):
                if -len(l.items) <= args[0] < len(l.items):
                    return l.items.pop(args[0])
                raise PyRaise("IndexError", "pop index out of range", site=node)
            raise OutOfReach("pop(i) on symbolic list")
        if name == "popleft":
            if l.prefix is not None:
                raise OutOfReach("popleft on symbolic-length deque")
            if not l.items:
                raise PyRaise("IndexError", "pop from an empty deque", site=node)
            return l.items.pop(0)
        if l.items:
            return l.items.pop()
        if l.prefix is not None:
            n = pfx_len(l)
            if not ctx.branch(n > 0):
                raise PyRaise("IndexError", "pop from empty list", site=node)
            last = pfx_elem(l, n - 1)
            v = getattr(l, "view", None)
            if v is not None:
                l.view = (v[0], n - 1)
                l.prefix = z3.Extract(v[0], 0, n - 1)
            else:
                l.prefix = z3.Extract(l.prefix, 0, n - 1)
            return last
        raise PyRaise("IndexError", "pop from empty list", site=node)
    if name == "index":
        if l.prefix is not None:
            raise OutOfReach("index on symbolic list")
        for i, x in enumerate(l.items):
            if ctx.branch(I.eq(args[0], x)):
                return i
        raise PyRaise("ValueError", "x not in list", site=node)
    if name == "remove":
        if l.prefix is not None:
            raise OutOfReach("remove on symbolic list")
        for i, x in enumerate(l.items):
            if ctx.branch(I.eq(args[0], x)):
                del l.items[i]
                return None
        raise PyRaise("ValueError", "list.remove(x): x not in list", site=node)
    if name == "reverse" and l.prefix is None:
        l.items.reverse()
        return None
    if name == "copy" and l.prefix is None:
        return ListV(l.items)
    if name == "clear":
        l.items = []
        l.prefix = None
        return None
    if name == "count" and l.prefix is None:
        return mk_int(z3.Sum(*[z3.If(I.eq(args[0], x), 1, 0) if not isinstance(I.eq(args[0], x), bool)
                               else z3.IntVal(1 if I.eq(args[0], x) else 0) for x in l.items])) if l.items else 0
    if name == "sort" and l.prefix is None and all(key_concrete(x) for x in l.items) and not kwargs:
        l.items.sort()
        return None
    raise OutOfReach("list method %s" % name)


def dict_method(I, d, name, args, kwargs, node=None):
    ctx = I.ctx
    if name == "get":
        k = args[0]
        default = args[1] if len(args) > 1 else None
        if d.abstract is not None:
            return d.abstract.get_default(I, k, default)
        h = dict_has(I, d, k)
        if ctx.branch(h):
            return dict_get(I, d, k, node)
        return default
    if name == "items":
        return ListV([(k, v) for k, v in dict_items(I, d)], cls="items")
    if name == "keys":
        return ListV([k for k, v in dict_items(I, d)], cls="keys")
    if name == "values":
        return ListV([v for k, v in dict_items(I, d)], cls="values")
    if name == "update":
        for src in args:
            for k, v in dict_items(I, src):
                dict_set(I, d, k, v)
        for k, v in kwargs.items():
            dict_set(I, d, k, v)
        return None
    if name == "copy":
        n = DictV(cls=d.cls)
        n.entries = {k: [v, p] for k, (v, p) in d.entries.items()}
        if d.abstract is not None:
            n.abstract = d.abstract.copy()
        return n
    if name == "pop":
        k = args[0]
        if ctx.branch(dict_has(I, d, k)):
            v = dict_get(I, d, k, node)
            delitem(I, d, k, node)
            return v
        if len(args) > 1:
            return args[1]
        raise PyRaise("KeyError", repr(k), site=node)
    if name == "setdefault":
        k = args[0]
        if ctx.branch(dict_has(I, d, k)):
            return dict_get(I, d, k, node)
        dict_set(I, d, k, args[1] if len(args) > 1 else None)
        return args[1] if len(args) > 1 else None
    if name == "clear":
        if d.abstract is not None:
            raise OutOfReach("clear on an abstract map")
        d.entries = {}
        if d.sym_items is not None:
            d.sym_items = []
        return None
    raise OutOfReach("dict method %s" % name)


# ---------------------------------------------------------------------- builtin functions
def _native(name):
    def deco(f):
        BUILTINS[name] = NativeFn(name, f)
        return f
    return deco


BUILTINS = {}
LIBRARY = {}
ABSTRACT_METHODS = {}


def library(name):
    def deco(f):
        LIBRARY[name] = NativeFn(name, f)
        return f
    return deco


@_native("len")
def _len(I, args, kwargs):
    return py_len(I, args[0])


@_native("ord")
def _ord(I, args, kwargs):
    c = args[0]
    if isinstance(c, str):
        if len(c) != 1:
            raise PyRaise("TypeError", "ord() expected a character, but string of length %d found" % len(c))
        return ord(c)
    if isinstance(c, SStr):
        if not I.ctx.branch(z3.Length(c.z) == 1):
            raise PyRaise("TypeError", "ord() expected a character")
        return mk_int(z3.StrToCode(c.z))
    if isinstance(c, (bytes, SBytes)):
        z = zbytes(c)
        if not I.ctx.branch(z3.Length(z) == 1):
            raise PyRaise("TypeError", "ord() expected a character")
        return mk_int(z3.StrToCode(z))
    raise PyRaise("TypeError", "ord() expected string of length 1")


@_native("chr")
def _chr(I, args, kwargs):
    i = args[0]
    if isinstance(i, int):
        try:
            return chr(i)
        except (ValueError, OverflowError) as e:
            raise PyRaise("ValueError", str(e))
    if isinstance(i, SInt):
        if not I.ctx.branch(z3.And(i.z >= 0, i.z <= 0x10FFFF)):
            raise PyRaise("ValueError", "chr() arg not in range(0x110000)")
        return mk_str(I.ctx.chr_fn(i.z))
    raise PyRaise("TypeError", "chr of non-int")


BUILTINS["unichr"] = BUILTINS["chr"]


@_native("int")
def _int(I, args, kwargs):
    v = args[0] if args else 0
    base = args[1] if len(args) > 1 else kwargs.get("base", 10)
    if isinstance(v, (int, bool)) and len(args) == 1:
        return int(v)
    if isinstance(v, str) and isinstance(base, int):
        try:
            return int(v, base)
        except ValueError as e:
            raise PyRaise("ValueError", str(e))
    if isinstance(v, SInt):
        return v
    if isinstance(v, SStr) and isinstance(base, int):
        return I.ctx.int_parse(I, v.z, base)
    raise OutOfReach("int(%r)" % (v,))


@_native("str")
def _str(I, args, kwargs):
    if not args:
        return ""
    v = args[0]
    if is_strlike(v):
        return v
    if isinstance(v, int) and not isinstance(v, bool):
        return str(v)
    if isinstance(v, SInt):
        return mk_str(int_to_str(v.z))
    if v is None or isinstance(v, bool):
        return str(v)
    raise OutOfReach("str(%r)" % (v,))


BUILTINS["__debug__"] = True          # assertions enabled (stated assumption)
BUILTINS["text_type"] = TypeV("str")
BUILTINS["binary_type"] = TypeV("bytes")
for _t in ("str", "int", "bool", "bytes", "dict", "list", "tuple", "set", "frozenset", "object", "type"):
    if _t not in ("str", "int"):
        BUILTINS[_t] = TypeV(_t)
BUILTINS["str_type"] = TypeV("str")
BUILTINS["int_type"] = TypeV("int")


def type_of(v):
    if v is None:
        return "NoneType"
    if isinstance(v, (bool, SBool)):
        return "bool"
    if isinstance(v, (int, SInt)):
        return "int"
    if isinstance(v, (str, SStr)):
        return "str"
    if isinstance(v, (bytes, SBytes)):
        return "bytes"
    if isinstance(v, tuple):
        return "tuple"
    if isinstance(v, (frozenset,)):
        return "frozenset"
    if isinstance(v, SetV):
        return "set"
    if isinstance(v, ListV):
        return v.cls if v.cls in ("list", "deque") else "list"
    if isinstance(v, (DictV, dict)):
        return "dict"
    return None


@_native("isinstance")
def _isinstance(I, args, kwargs):
    v, t = args
    ts = t if isinstance(t, tuple) else (t,)
    tv = type_of(v)
    for x in ts:
        if isinstance(x, TypeV):
            if x.name == "object":
                return True
            if tv == x.name or (tv == "bool" and x.name == "int"):
                return True
        elif isinstance(x, NativeFn) and x.name in ("str", "int", "tuple", "list", "dict", "set", "frozenset", "bool", "bytes"):
            if tv == x.name or (tv == "bool" and x.name == "int"):
                return True
        elif isinstance(x, ClassInfo):
            if isinstance(v, Obj) and isinstance(v.cls, ClassInfo) and any(c.node is x.node for c in v.cls.mro()):
                return True
        elif isinstance(x, Opaque):
            if isinstance(v, Obj) and isinstance(v.cls, str):
                raise OutOfReach("isinstance against library class %r" % (x,))
        elif isinstance(x, ExcClass):
            pass
        else:
            raise OutOfReach("isinstance against %r" % (x,))
    return False


@_native("hasattr")
def _hasattr(I, args, kwargs):
    v, name = args
    if isinstance(v, Obj):
        if name in v.fields:
            return True
        if isinstance(v.cls, ClassInfo):
            return v.cls.find_method(name) is not None or v.cls.find_attr(name) is not None
        return (v.cls, name) in ABSTRACT_METHODS
    if is_strlike(v) or isinstance(v, (bytes, SBytes)):
        return name in dir(str if is_strlike(v) else bytes)
    raise OutOfReach("hasattr on %r" % (v,))


@_native("getattr")
def _getattr(I, args, kwargs):
    v, name = args[0], args[1]
    try:
        return I.getattr(v, name)
    except PyRaise as e:
        if e.name == "AttributeError" and len(args) > 2:
            return args[2]
        raise
    except OutOfReach as e:
        if len(args) > 2 and "has no model of attribute" in str(e):
            return args[2]
        raise


@_native("range")
def _range(I, args, kwargs):
    if len(args) == 1:
        return RangeV(0, args[0])
    if len(args) == 2:
        return RangeV(args[0], args[1])
    return RangeV(args[0], args[1], args[2])


@_native("sorted")
def _sorted(I, args, kwargs):
    items = iterate(I, args[0])
    key = kwargs.get("key")
    if all(key_concrete(x) for x in items):
        if key is None:
            try:
                return ListV(sorted(items))
            except TypeError as e:
                raise PyRaise("TypeError", str(e))
        keys = [I.call(key, [x], {}) for x in items]
        if all(key_concrete(k) for k in keys):
            try:
                order_ = sorted(range(len(items)), key=lambda i: keys[i])
            except TypeError as e:
                raise PyRaise("TypeError", str(e))
            return ListV([items[i] for i in order_])
    from .sortlib import symbolic_sorted
    return symbolic_sorted(I, items, key)


@_native("list")
def _list(I, args, kwargs):
    if not args:
        return ListV([])
    v = args[0]
    if isinstance(v, ListV) and v.prefix is not None:
        return ListV(list(v.items), prefix=v.prefix)
    return ListV(iterate(I, v))


@_native("tuple")
def _tuple(I, args, kwargs):
    if not args:
        return ()
    return tuple(iterate(I, args[0]))


@_native("dict")
def _dict(I, args, kwargs):
    d = DictV()
    if args:
        items = dict_items(I, args[0])
        if any(isinstance(k, SStr) for k, _ in items) and all(is_strlike(k) and is_strlike(v) for k, v in items):
            # symbolic string keys: an abstract map built by the same sequence of insertions
            from .absmap import AbstractMap
            I.ctx.fresh_n += 1
            d.abstract = AbstractMap(I.ctx, "dict_f%d" % I.ctx.fresh_n)
            I.ctx.assume(d.abstract.size == 0)
            k0 = z3.String("dict_f%d_k" % I.ctx.fresh_n)
            I.ctx.assume(z3.ForAll([k0], z3.Not(z3.Select(d.abstract.present, k0))))
            d.abstract.order = []
        for k, v in items:
            dict_set(I, d, k, v)
    for k, v in kwargs.items():
        dict_set(I, d, k, v)
    return d


BUILTINS["OrderedDict"] = NativeFn("OrderedDict", lambda I, a, k: _dict(I, a, k))
LIBRARY["collections.OrderedDict"] = BUILTINS["OrderedDict"]
LIBRARY["collections.deque"] = NativeFn("deque", lambda I, a, k: ListV(iterate(I, a[0]) if a else [], cls="deque"))
BUILTINS["deque"] = LIBRARY["collections.deque"]
BUILTINS["attributeMap"] = BUILTINS["OrderedDict"]


@_native("frozenset")
def _frozenset(I, args, kwargs):
    if not args:
        return frozenset()
    items = iterate(I, args[0])
    if all(key_concrete(x) for x in items):
        return frozenset(items)
    return SetV(items)


@_native("set")
def _set(I, args, kwargs):
    if not args:
        return SetV([])
    return SetV(iterate(I, args[0]))


@_native("bool")
def _bool(I, args, kwargs):
    t = I.truth(args[0]) if args else False
    return mk_bool(t) if not isinstance(t, bool) else t


@_native("min")
def _min(I, args, kwargs):
    xs = list(args) if len(args) > 1 else iterate(I, args[0])
    if all(isinstance(x, int) for x in xs):
        return min(xs)
    acc = zi(xs[0])
    for x in xs[1:]:
        acc = z3.If(zi(x) < acc, zi(x), acc)
    return mk_int(acc)


@_native("max")
def _max(I, args, kwargs):
    xs = list(args) if len(args) > 1 else iterate(I, args[0])
    if all(isinstance(x, int) for x in xs):
        return max(xs)
    acc = zi(xs[0])
    for x in xs[1:]:
        acc = z3.If(zi(x) > acc, zi(x), acc)
    return mk_int(acc)


@_native("enumerate")
def _enumerate(I, args, kwargs):
    return ListV([(i, x) for i, x in enumerate(iterate(I, args[0]))])


@_native("zip")
def _zip(I, args, kwargs):
    return ListV([tuple(t) for t in zip(*[iterate(I, a) for a in args])])


@_native("reversed")
def _reversed(I, args, kwargs):
    return ListV(list(reversed(iterate(I, args[0]))))


@_native("all")
def _all(I, args, kwargs):
    r = z_and([I.truth(x) for x in iterate(I, args[0])])
    return r if isinstance(r, bool) else mk_bool(r)


@_native("any")
def _any(I, args, kwargs):
    r = z_or([I.truth(x) for x in iterate(I, args[0])])
    return r if isinstance(r, bool) else mk_bool(r)


@_native("sum")
def _sum(I, args, kwargs):
    xs = iterate(I, args[0])
    if all(isinstance(x, int) for x in xs):
        return sum(xs)
    return mk_int(z3.Sum(*[zi(x) for x in xs]))


@_native("abs")
def _abs(I, args, kwargs):
    if isinstance(args[0], int):
        return abs(args[0])
    return mk_int(z3.If(args[0].z < 0, -args[0].z, args[0].z))


@_native("repr")
def _repr(I, args, kwargs):
    if key_concrete(args[0]):
        return repr(args[0])
    raise OutOfReach("repr of symbolic value")


@_native("id")
def _id(I, args, kwargs):
    v = args[0]
    if isinstance(v, (Obj, DictV, ListV)):
        return v.oid
    raise OutOfReach("id()")


@_native("iter")
def _iter(I, args, kwargs):
    return ListV(iterate(I, args[0]), cls="iterator")


@_native("next")
def _next(I, args, kwargs):
    it = args[0]
    if isinstance(it, ListV) and it.prefix is None:
        if it.items:
            return it.items.pop(0)
        if len(args) > 1:
            return args[1]
        raise PyRaise("StopIteration", "")
    if isinstance(it, Obj):
        m = I.find_method(it, "__next__")
        if m is not None:
            return I.call(m, [], {})
    raise OutOfReach("next(%r)" % (it,))


import codecs as _codecs
for _n in ("BOM_UTF8", "BOM_UTF16_LE", "BOM_UTF16_BE", "BOM_UTF32_LE", "BOM_UTF32_BE"):
    LIBRARY["codecs." + _n] = getattr(_codecs, _n)
def _opaque_str_fn(name):
    def f(I, args, kwargs):
        fn = I.ctx.opaque_fn(name, [z3.StringSort()], z3.StringSort())
        a = args[0]
        if not is_strlike(a):
            raise PyRaise("TypeError", "%s of non-string" % name)
        return mk_str(fn(zs(a)))
    return NativeFn(name, f)


def _xml_escape(I, args, kwargs):
    """xml.sax.saxutils.escape without the entities argument: its source is three str.replace calls"""
    if len(args) != 1 or kwargs:
        raise OutOfReach("escape() with an entities table")
    d = args[0]
    if isinstance(d, str):
        return d.replace("&", "&amp;").replace(">", "&gt;").replace("<", "&lt;")
    z = zs(d)
    z = I.ctx.replace_all(z, z3.StringVal("&"), z3.StringVal("&amp;"))
    z = I.ctx.replace_all(z, z3.StringVal(">"), z3.StringVal("&gt;"))
    z = I.ctx.replace_all(z, z3.StringVal("<"), z3.StringVal("&lt;"))
    return mk_str(z)


LIBRARY["xml.sax.saxutils.escape"] = NativeFn("xml_escape", _xml_escape)
LIBRARY["xml.sax.saxutils.unescape"] = _opaque_str_fn("xml_unescape")
LIBRARY["six.moves.urllib_parse"] = None      # set below (module reference)


def _urlparse(I, args, kwargs):
    from .values import SRec
    s = args[0]
    raises = I.ctx.opaque_fn("urlparse_raises", [z3.StringSort()], z3.BoolSort())
    ident = I.ctx.opaque_fn("urlparse_id", [z3.StringSort()], z3.IntSort())
    if I.ctx.branch(raises(zs(s))):
        raise PyRaise("ValueError", "urlparse: invalid URL")
    return SRec(ident(zs(s)), "ParseResult", {"scheme": "str", "path": "str", "netloc": "str"})


LIBRARY["urllib.parse.urlparse"] = NativeFn("urlparse", _urlparse)
LIBRARY["warnings.warn"] = NativeFn("warnings.warn", lambda I, a, k: None)     # warnings are not errors (assumption)


def call_type(I, t, args, kwargs):
    if t.name in BUILTINS and isinstance(BUILTINS[t.name], NativeFn):
        return BUILTINS[t.name].impl(I, args, kwargs)
    if t.name == "str":
        return _str(I, args, kwargs)
    if t.name == "int":
        return _int(I, args, kwargs)
    if t.name == "object":
        return Obj("object")
    raise OutOfReach("call of type %s" % t.name)


BUILTINS["str"] = NativeFn("str", _str)
BUILTINS["int"] = NativeFn("int", _int)


# ---- contract-language additions (usable from /verif/contracts and /verif/spec only) -------------
@_native("implies")
def _implies(I, args, kwargs):
    r = z_implies(I.truth(args[0]), I.truth(args[1]))
    return r if isinstance(r, bool) else mk_bool(r)


@_native("iff")
def _iff(I, args, kwargs):
    a, b = I.truth(args[0]), I.truth(args[1])
    if isinstance(a, bool) and isinstance(b, bool):
        return a == b
    za = z3.BoolVal(a) if isinstance(a, bool) else a
    zb_ = z3.BoolVal(b) if isinstance(b, bool) else b
    return mk_bool(za == zb_)


@_native("in_re")
def _in_re(I, args, kwargs):
    """in_re(s, pattern): s fully matches the regular expression `pattern` (language membership)."""
    s, pat = args[0], args[1]
    flags = args[2] if len(args) > 2 else 0
    if isinstance(pat, ReConst):
        pat, flags = pat.pattern, pat.flags
    r = regex2smt.full_language(pat, flags)
    if isinstance(s, str):
        import re as _re
        return _re.fullmatch(pat, s, flags) is not None
    return mk_bool(z3.InRe(zs(s), r))


@_native("in_chars")
def _in_chars(I, args, kwargs):
    """in_chars(s, chars): every character of s is in `chars`."""
    s, chars = args
    chars = "".join(iterate(I, chars)) if not isinstance(chars, str) else chars
    if isinstance(s, str):
        return all(c in chars for c in s)
    R = z3.Star(regex2smt.charset_regex(chars))
    I.ctx.star_candidates.setdefault(str(zs(s)), []).append(R)
    return mk_bool(z3.InRe(zs(s), R))


@_native("no_chars")
def _no_chars(I, args, kwargs):
    """no_chars(s, chars): no character of s is in `chars`."""
    s, chars = args
    chars = "".join(iterate(I, chars)) if not isinstance(chars, str) else chars
    if isinstance(s, str):
        return all(c not in chars for c in s)
    R = z3.Star(regex2smt.not_charset_regex(chars))
    I.ctx.star_candidates.setdefault(str(zs(s)), []).append(R)
    return mk_bool(z3.InRe(zs(s), R))


@_native("is_str")
def _is_str(I, args, kwargs):
    return is_strlike(args[0])


@_native("is_int")
def _is_int(I, args, kwargs):
    return is_intlike(args[0])


@_native("is_none")
def _is_none(I, args, kwargs):
    return args[0] is None


@_native("is_dict")
def _is_dict(I, args, kwargs):
    return isinstance(args[0], (DictV, dict))


@_native("is_list")
def _is_list(I, args, kwargs):
    return isinstance(args[0], ListV)


@_native("has_key")
def _has_key(I, args, kwargs):
    r = dict_has(I, args[0], args[1]) if isinstance(args[0], DictV) else (args[1] in args[0])
    return r if isinstance(r, bool) else mk_bool(r)


@_native("remove_suffix")
def _remove_suffix(I, args, kwargs):
    """remove_suffix(v, rest): the p with v == p + rest (meaningful when v ends with rest): stated as a
    word equation instead of slicing by lengths"""
    v, rest = args
    if isinstance(v, str) and isinstance(rest, str):
        return v[:len(v) - len(rest)] if v.endswith(rest) else v
    p = I.ctx.fresh("consumed").z
    I.ctx.assume(z3.Implies(z3.SuffixOf(zs(rest), zs(v)), zs(v) == z3.Concat(p, zs(rest))), kind="path")
    return mk_str(p)


@_native("is_fresh")
def _is_fresh(I, args, kwargs):
    """is_fresh(obj): a mutable object created during the call under verification (not reachable before)"""
    v = args[0]
    if isinstance(v, (Obj, DictV, ListV, SetV)):
        return v.oid > I.ctx.entry_oid
    return False


@_native("method_name")
def _method_name(I, args, kwargs):
    """method_name(bound method) -> its name (how the tokenizer's `state` is observed)"""
    m = args[0]
    if isinstance(m, BoundMethod):
        return m.fn.qualname.split(".")[-1]
    if m is None:
        return None
    raise OutOfReach("method_name of %r" % (m,))


@_native("appended")
def _appended(I, args, kwargs):
    """appended(old_list, new_list): the items new_list has beyond old_list (same unknown prefix)"""
    old, new = args
    if isinstance(old, ListV) and isinstance(new, ListV):
        same = (old.prefix is None and new.prefix is None) or (
            old.prefix is not None and new.prefix is not None and old.prefix.get_id() == new.prefix.get_id())
        if same and len(new.items) >= len(old.items):
            return ListV(new.items[len(old.items):])
    raise OutOfReach("appended() of lists that are not extensions of one another")


@_native("stack_in_scope")
def _stack_in_scope(I, args, kwargs):
    """stack_in_scope(target, variant, stack): the uninterpreted "has an element in the specific scope" predicate of the
    abstract tree builder (contracts/phase_progress.py), as a function of the stack's symbolic prefix"""
    target, variant, l = args
    if not (isinstance(l, ListV) and l.prefix is not None and not l.items):
        raise OutOfReach("stack_in_scope of a stack that is not purely symbolic")
    f = I.ctx.opaque_fn("in_scope", [z3.StringSort(), z3.StringSort(), z3.SeqSort(z3.IntSort())], z3.BoolSort())
    zt = z3.StringVal(target) if isinstance(target, str) else zs(target)
    return mk_bool(f(zt, z3.StringVal(str(variant)), l.prefix))


@_native("is_prefix_list")
def _is_prefix_list(I, args, kwargs):
    """is_prefix_list(a, b): list a is an initial segment of list b (lists with symbolic prefixes and no
    concrete items, or concrete lists compared by identity)"""
    a, b = args
    if isinstance(a, ListV) and isinstance(b, ListV):
        if a.prefix is not None and b.prefix is not None and not a.items and not b.items:
            va = getattr(a, "view", None)
            if va is not None and getattr(b, "view", None) is None and va[0].get_id() == b.prefix.get_id():
                return mk_bool(z3.And(va[1] >= 0, va[1] <= z3.Length(b.prefix)))      # a view of b itself
            return mk_bool(z3.PrefixOf(a.prefix, b.prefix))
        if a.prefix is None and b.prefix is None:
            if len(a.items) > len(b.items):
                return False
            r = [I.same(x, y) for x, y in zip(a.items, b.items)]
            return z_and([x if not isinstance(x, bool) else z3.BoolVal(x) for x in r]) if r else True
    raise OutOfReach("is_prefix_list of %r, %r" % (a, b))


@_native("same_object")
def _same_object(I, args, kwargs):
    r = I.same(args[0], args[1])
    return r if isinstance(r, bool) else mk_bool(r)


@_native("code")
def _code(I, args, kwargs):
    """code(c): code point of a one-character string (spec-side ord without a length fork)."""
    c = args[0]
    if isinstance(c, str):
        return ord(c)
    return mk_int(z3.StrToCode(zs(c)))


@_native("assume_lemma")
def _assume_lemma(I, args, kwargs):
    """assume_lemma(name, fact): use an instance of a lemma that is not proved by the engine.  The fact is
    added to the path condition; the lemma is listed under assumptions in the evidence (and exercised
    natively: the native definition asserts the instance)."""
    name, fact = args
    I.ctx.notes.append("assumed-lemma: " + str(name))
    t = I.truth(fact)
    I.ctx.assume(t, kind="cut")
    return True


@_native("int_value")
def _int_value(I, args, kwargs):
    """spec-side: mathematical value of a digit string (no digit-count limit)"""
    s, base = args[0], (args[1] if len(args) > 1 else 10)
    if isinstance(s, str):
        return int(s, base)
    return mk_int(I.ctx.int_value(zs(s), base))


@_native("char")
def _charof(I, args, kwargs):
    i = args[0]
    if isinstance(i, int):
        return chr(i)
    return mk_str(I.ctx.chr_fn(zi(i)))


def call_opaque(I, f, args):
    zargs = []
    for a, k in zip(args, f.argkinds):
        if k == "str":
            zargs.append(zs(a))
        elif k == "int":
            zargs.append(zi(a))
        elif k == "bool":
            zargs.append(zb(a) if not isinstance(a, bool) else z3.BoolVal(a))
        elif k == "strlist":
            zargs.append(a.z)
        else:
            raise OutOfReach("opaque arg kind " + k)
    r = f.decl(*zargs)
    return {"str": mk_str, "int": mk_int, "bool": mk_bool, "strlist": SStrList}[f.reskind](r)

"""Static description of each property's check (what is decided, what is not)."""

TRUSTED_BASE = [
    "pyvc (AST->SMT translation of the stated Python subset, heap model, loop/call rules) -- /verif/pyvc",
    "z3 5.1.0 (primary), cvc5 1.0.3 (takes z3's unknowns)",
    "spec functions and tables under /verif/spec (the meaning of 'what the standard says')",
    "CPython 3.12 running the ground (exhaustive finite-domain) obligations on the real imported modules",
]

ASSUMPTIONS = [
    "Python ints are mathematical integers (exact); strings are SMT-LIB Unicode strings, code points <= U+2FFFF",
    "assert statements are enabled (not -O); warnings are not errors; no concurrent mutation of the objects involved",
    "library contracts of built-in str/list/dict/re operations as encoded in /verif/pyvc/builtins_.py and relib.py",
]

PROPS = {}


def prop(pid, **kw):
    PROPS[pid] = kw


prop("C13",
     level="proof",
     frames=True,
     level_text="Proof, for all tag names and all neighbour tokens, that is_optional_start/is_optional_end answer True only for "
                "the 18 listed elements and only where the standard's optional-tag rule (spec/optional_tags.py) allows it, and "
                "that Filter.__iter__/slider only ever drop tokens (step-wise loop contracts: every other token is yielded, the "
                "same object, untouched, in order). Obligations are generated from the real AST on every run.",
     level_note="Trusted: pyvc engine, z3/cvc5, spec/optional_tags.py (transcription of WHATWG 13.1.2.4 to a 3-token window). "
                "Whole-stream statement follows from the step contracts by induction over the stream (meta-argument, not mechanised). "
                "Not decided: the parse-equivalence clause (needs C01). One known finding (</p> before datagrid/dialog/dir).",
     not_decided=["parse-equivalence clause for conforming documents (needs tree-construction semantics, C01)"],
     explanation="is_optional_start/is_optional_end proved against the standard's optional-tag rules for every "
                 "tag name and every neighbour token; __iter__/slider proved step-wise to only drop tokens.")


prop("C16",
     level="proof",
     level_text="Exhaustive ground obligations over every parse-error site found in the AST of html5parser.py, _tokenizer.py and "
                "_inputstream.py on each run (code has a template in constants.E whose placeholders the site supplies; every "
                "template formats; `strict` is read only in parseError; nothing but _ReparseException is caught), plus a proof "
                "of HTMLParser.parseError's contract for all codes/variables/list contents: it records (position, code, vars) "
                "and raises ParseError iff strict, after recording -- hence strict raises at the first recorded error.",
     level_note="Trusted: pyvc, z3, CPython's ast/% formatting for the ground part. Not decided here: that no other exception type "
                "escapes (C03's coverage) and that conforming documents record no errors (needs C01). Positions: line>=1, col>=0 "
                "are taken from the stream contract (C05).",
     not_decided=["no other exception type escapes parsing (C03 components)", "conforming documents record no errors (C01)"],
     explanation="227+ error sites enumerated from the AST each run; parseError proved against its contract.")


prop("C17",
     level="proof",
     frames=True,
     level_text="Proof of the whitespace filter's loop body for an arbitrary token and an arbitrary nesting counter: the token is "
                "emitted exactly once; non-text tokens and all keys but `data` are untouched; outside preserve elements "
                "SpaceCharacters -> ' ' and Characters -> re.sub('[\\t\\n\\f \\r]+',' ',.) (SPACES_REGEX proved language-equal to "
                "the five HTML space characters, so non-ASCII spaces are kept); inside they are untouched; the counter tracks "
                "the depth below the outermost pre/textarea/raw-text element; and a lemma that a second pass changes nothing.",
     level_note="Trusted: pyvc, z3; the library contract of re.sub for a one-class-plus pattern (an opaque function with the facts "
                "listed in pyvc/relib.py). Step contracts give the whole-stream statement by induction (not mechanised). "
                "Known finding: a whitespace run spanning two text tokens is not merged.",
     explanation="per-token step contract + idempotence lemma")


prop("C14",
     level="proof",
     level_text="Proof of consumeNumberEntity for every digit run (any length, decimal and hex): the result is the standard's "
                "replacement of the number (C1 table, NUL, surrogates, out of range -> U+FFFD, else the code point) and exactly "
                "the digits and an optional ';' are consumed; proof of consumeEntity against an abstract trie: the scan is "
                "maximal, the longest name inside it is decoded, the attribute-value exception applies exactly when the "
                "semicolon-less name is followed by an alphanumeric or '=', nothing is lost or invented, and the text goes to "
                "the attribute value or a character token. Ground (exhaustive): the 2231-name table and the numeric table "
                "against CPython's independent copies, the real Trie's answers on all 610 948 prefix queries, and the encode "
                "handler on all 0x110000 code points (reverse clause).",
     level_note="Trusted: pyvc, z3/cvc5; the stream interface contract (proved of the real class under C05); library facts about "
                "int() and str.lstrip listed in pyvc/engine.py; html.entities.html5 and html._invalid_charrefs as the standard's "
                "tables. The step from 'longest name inside the maximal scan' to 'longest name that is a prefix of the input' is "
                "a five-line argument over the trie definitions (DESIGN.md), not mechanised. Known finding: the reverse clause "
                "fails for NUL, CR and C1 controls/surrogates (inherent to HTML).",
     explanation="numeric and named reference functions under contract; tables and reverse map exhaustively ground-checked")


prop("C20",
     level="proof",
     level_text="Exhaustive ground obligations over the whole BMP (every character as first, middle and last character of a "
                "name, through a fresh and through one long-lived filter): the name-class regexps equal expat's name classes "
                "(plus ':'), toXmlName output is accepted by expat, legal names are unchanged, fromXmlName inverts it, "
                "escapeChar/unescapeChar round-trip, nonPubidCharRegexp equals the PubidChar production (all code points). "
                "Proofs (all strings, all flag combinations): coerceComment never leaves '--' or a trailing '-', "
                "coerceCharacters/coerceAttribute/coerceElement dispatch, and the replacement cache is a transparent memo.",
     level_note="Trusted: pyvc, z3, expat as the judge of XML names. toXmlName on names of several characters is decided "
                "character-wise (ground) -- that it acts character-wise (the sequential str.replace calls do not interfere "
                "because replacements consist of name characters only) is argued in DESIGN.md, not mechanised; termination of "
                "the `while '--' in data` loop is not decided. Astral characters are outside the regexps by design.",
     not_decided=["toXmlName acts character-wise on multi-character names (argued, not mechanised)",
                  "coercePubid beyond its character class", "termination of coerceComment's loop"],
     explanation="BMP-exhaustive ground checks + contracts on the string-level coercions")


prop("C06",
     level="proof",
     frames=True,
     level_text="Proofs over all byte contents and all assignments of the five *_encoding arguments (labels valid, invalid, "
                "absent): determineEncoding returns exactly the documented precedence with the documented confidence; "
                "detectBOM recognises the five BOMs (UTF-32 before UTF-16) and leaves the stream right after the BOM; "
                "detectEncodingMeta never reports UTF-16 and rewinds; changeEncoding keeps a certain encoding (precondition "
                "checked at its caller), maps a declared UTF-16 to UTF-8, makes an agreeing declaration certain without "
                "restart and otherwise rewinds, resets and raises the restart exception; lookupEncoding/handleMeta frame.",
     level_note="Trusted: pyvc, z3; webencodings.lookup as a function of the label (assumed; utf-8, windows-1252, utf-16/32 "
                "labels are ground-checked to resolve); chardet absent (as in this environment). The byte-level prescan "
                "(EncodingParser.getAttribute, ContentAttrParser, EncodingBytes) is NOT under contract in this revision: its "
                "result enters as an arbitrary codec-or-None. 'The tree equals the tree of the bytes decoded with the reported "
                "encoding' needs C05 and C01.",
     not_decided=["prescan byte parser against the standard's prescan algorithm", "tree equality after restart (C01/C05)"],
     explanation="encoding decision functions under contract with codecs as abstract values")


prop("C05",
     level="proof",
     level_text="Proof that the real HTMLUnicodeInputStream implements the stream interface contract the tokenizer proofs "
                "assume, for EVERY segmentation of the source into reads (read(n) may return any non-empty prefix up to n) and "
                "every internal chunk size >= 1: readChunk neither loses nor invents text and keeps the representation "
                "invariant (a CR LF pair or surrogate pair cut by a read boundary is held back); char() returns the first "
                "character of the remaining normalised text; unget() puts it back; charsUntil() returns the maximal run "
                "(loop invariant; quick tier: three representative character sets, thorough: all thirteen the tokenizer "
                "passes); reset() re-initialises every field a parse writes. BufferedStream (the rewind buffer put around byte streams "
                "that cannot seek): read/seek/tell against the abstract view 'bytes delivered so far + position' with the "
                "representation invariant, explored for buffers of 0..3 chunks and every position (bounded stand-in, not counted).",
     level_note="Trusted: pyvc, z3/cvc5. Assumed lemmas about str.replace-based newline normalisation (split_safe, "
                "norm_basics in spec/stream.py), exercised natively; the library contract of re match for a one-class-plus "
                "pattern. Not decided in this revision: line/column positions (position/_position), the per-chunk "
                "invalid-codepoint error positions (observed, outside every obligation), byte-level decoding (the codecs "
                "incremental decoders are assumed chunk-independent), termination of the charsUntil loop.",
     not_decided=["position()/_position arithmetic", "byte-level decoding (codec stream readers)", "termination of charsUntil"],
     explanation="the stream class is proved against the same contract text the tokenizer proofs assume")


prop("C02",
     level="proof",
     level_text="Per-state proofs: each tokenizer state method under contract, started from ANY remaining input and ANY token "
                "under construction, performs the transition the WHATWG tokenization algorithm prescribes for that state "
                "(next state, characters consumed or reconsumed, character data emitted -- compared after concatenation --, "
                "tag token created/extended/emitted, fresh attribute lists), against the stream interface contract that C05 "
                "proves of the real stream class. States under contract are listed in the evidence "
                "(functions_under_contract); the others are NOT decided.",
     level_note="Trusted: pyvc, z3; the transcription of the standard's per-state rules into contracts/tokenizer_states.py; "
                "the stream contract (C05). 65 of the 66 state methods are under contract (plus characterReferenceInRcdata and "
                "emitCurrentToken), and __iter__ yields the stream's errors and then the queued tokens of each state call in "
                "order (loop contract, bounded in the tokens per call); not under contract: cdataSectionState (two nested loops; "
                "reachable only with a parser in foreign content). markupDeclarationOpenState is proved for a stand-alone "
                "tokenizer (no CDATA branch). Where the standard says 'append X and reconsume in state S' and html5lib does both "
                "in one step, the contract states the composite (comment, DOCTYPE states); the DOCTYPE name is compared after "
                "ASCII lower-casing while it is being read. Lower-casing at emission and duplicate attributes are "
                "emitCurrentToken's contract; character references are consumeEntity's (C14).",
     not_decided=["cdataSectionState", "composition of the per-state steps into whole-input equivalence (induction over steps, not mechanised)"],
     explanation="state-by-state contracts against the standard, modular over the stream contract")


prop("C11",
     level="proof",
     level_text="Proofs of the components every tree walker is built from: TreeWalker.text splits any text into at most "
                "whitespace / other / whitespace pieces that concatenate to the text, with whitespace pieces made of the five "
                "ASCII space characters only and no empty piece; NonRecursiveTreeWalker.__iter__, for an arbitrary node (any "
                "answer of getNodeDetails), emits on entering exactly the token(s) of that node kind (EmptyTag for void HTML "
                "elements and no descent into them, StartTag otherwise, Doctype/Comment/Entity/text pieces/error) and on "
                "leaving an EndTag exactly for the elements that got a StartTag -- the two guards are proved complementary. The "
                "etree walker's getFirstChild / getNextSibling / getParentNode are first child / next sibling / parent of the "
                "DOM-like child sequence [text][child][tail]... of an ElementTree element (bounded: parents with up to 2 children, "
                "not counted). Bounded/ground on the real code: attributes read back identically through the etree and dom "
                "walkers; thorough tier: on 376k parsed trees the streams pass the Lint filter and agree across walkers.",
     level_note="Trusted: pyvc, z3, spec/etmodel.py. Step contracts (arbitrary node, arbitrary walk state); that the traversal "
                "visits every node once in document order follows from the loop contract plus the navigation contracts by "
                "induction over the tree, which is NOT mechanised; the dom walker's navigation is minidom's own; getNodeDetails of "
                "the back ends is covered only for attributes (bounded).",
     not_decided=["document-order traversal over whole trees (induction not mechanised)", "getNodeDetails beyond attributes",
                  "rebuilding the tree from the stream"],
     explanation="walker components under contract")


prop("C19",
     level="proof",
     level_text="Proof of to_sax for an arbitrary handler history and an arbitrary token: exactly one startDocument/endDocument "
                "pair around the three prefix mappings, each started and ended once; per token: StartTag -> startElementNS with "
                "the token's own attribute map and the standard qualified-name table, EmptyTag -> start + end, EndTag -> "
                "endElementNS, text -> characters, doctype/comments omitted; plus the walker's entering/leaving guards (shared "
                "with C11) which make the start/end events pair up; ground: the qname table inverts adjustForeignAttributes.",
     level_note="Trusted: pyvc, z3; AttributesNSImpl as a record of (attrs, qnames). Proper nesting of the events follows from the "
                "balance of the walker stream (C11: traversal order not mechanised). Entity / SerializeError tokens are excluded "
                "by precondition (they do not occur for parsed trees: needs C01).",
     not_decided=["nesting over whole streams (needs C11's traversal part)", "rebuilt tree equals source tree"],
     explanation="adapter step contract + tables")


prop("C18",
     level="proof",
     frames=True,
     level_text="Proof that the sort key _attr_key is total and is the pair (namespace or '', local name) of strings for every "
                "attribute with namespace None or a string (so comparisons never mix None and str). The filter's loop body is "
                "explored symbolically for every token kind and every attribute map with AT MOST THREE attributes (any "
                "namespaces, names, values, incoming order): same pairs, ordered by the key, other tokens untouched -- a "
                "bounded stand-in, reported under bounded_standins and not counted as proved.",
     level_note="Trusted: pyvc, z3. For maps of any size the statement follows from the key contract plus the library contracts of "
                "sorted() (stable permutation ordered by key) and OrderedDict insertion (distinct keys keep order), argued in "
                "DESIGN.md, not mechanised. Incoming-order independence additionally needs keys to be distinct under the key "
                "function: ('' and None namespaces with one local name tie -- recorded in DESIGN.md).",
     not_decided=["attribute maps with more than three entries (argued from library contracts)"],
     explanation="key function under contract; loop body bounded")


prop("C15",
     level="proof",
     level_text="Ground (exhaustive, all 0x110000 code points): the encoder's error handler writes every character the encoding "
                "cannot express as a ';'-terminated reference that decodes back to it (shared with C14; known finding for "
                "NUL/CR/C1/surrogates). The inject_meta_charset filter's loop body is explored symbolically for an arbitrary "
                "filter state and token within a bound (queue of <= 2 held tokens, <= 2 attributes): every token is passed on "
                "once and in order, the synthetic <meta charset> is inserted exactly when head ends (or <head/> is expanded) "
                "without a declaration, and only charset= / http-equiv content= values of meta tags are rewritten, to the "
                "output encoding -- reported as bounded stand-in, not counted as proved. Proved for all attribute values: the "
                "parser's InHeadPhase.startTagMeta changes the encoding exactly when the declaration counts (tentative only; "
                "charset wins; content only with http-equiv = content-type ignoring case) against an abstract stream.",
     level_note="Trusted: pyvc, z3, CPython codecs. The consumer side (the bytes, parsed with no hints, are decoded with the "
                "declared encoding and give the same tree) needs C06's prescan and C01/C05 and is not decided. Observed while "
                "reading and outside every obligation here: utf-16 output gets a BOM per encoded piece.",
     not_decided=["decode side: prescan finds the declaration; same tree (C06/C01)", "serialize() prologue (filter applied iff encoding and inject_meta_charset)"],
     explanation="encode handler ground-checked on every code point; filter loop body bounded")


prop("C09",
     level="proof",
     frames=True,
     level_text="Proofs for ARBITRARY allow-lists (sets known only through membership): sanitize_token lets a tag token through as "
                "a tag only if (namespace, name) is on the element allow-list (None falls back to the HTML namespace), drops "
                "comments, turns every other tag into a Characters token without a name, leaves other tokens untouched; "
                "__iter__ yields only what the gate returns. Bounded stand-ins (not counted): allowed_token for attribute maps "
                "of <= 1 (quick) / 2 (thorough) attributes -- surviving attributes are allow-listed, values untouched, and a "
                "surviving URL attribute has no scheme or an allowed one (allowed content type for data:) after the code's own "
                "normalisation; disallowed_token; sanitize_css over ~3.3 million token concatenations never returns url(.",
     level_note="Trusted: pyvc, z3; urllib.parse.urlparse, xml.sax.saxutils.(un)escape and re as uninterpreted functions; the step "
                "from the code's URL normalisation to 'the scheme a browser resolves' is NOT decided (needs a WHATWG URL model). "
                "Ground: no raw-text element on the default allow-list.",
     not_decided=["browser-equivalence of the URL normalisation", "allowed_token / sanitize_css for unbounded inputs",
                  "svg_attr_val_allows_ref url() stripping"],
     explanation="element gate proved for arbitrary allow-lists; attribute/URL/CSS parts bounded")


prop("C08",
     level="proof",
     level_text="The serializer's loop body is explored symbolically for an arbitrary raw-text state, every token kind and "
                "every combination of the quoting / escaping / solidus options (bounded in the number of attributes, see "
                "bounded_standins; not counted as proved): text outside raw-text elements is written with &, <, > escaped and "
                "contains no '<' or '>', inside raw text it is written verbatim and a '</' is reported; the raw-text flag is "
                "set exactly between the tags of a raw-text element and is local to one serialize() call (frame obligation); "
                "comments with '--' are reported; every attribute value has & (and < on request) escaped whether or not it is "
                "quoted, is quoted when the mode requires it, and never contains its own quote character; a doctype's identifiers "
                "are delimited by a quote character they do not contain (or an error is reported).",
     level_note="Trusted: pyvc, z3; str.replace as an opaque function with the library facts listed in pyvc/engine.py. These are "
                "the local lexical conditions; that they imply 're-tokenising yields the same token' (the lemma over the C02 "
                "spec machine) is NOT mechanised in this revision. Known finding: noscript text is written raw although the "
                "parser (scripting off) reads it as markup (ground obligation 'serializer tables agree with the parser'). Observed "
                "while reading and NOT covered by any obligation: attribute namespace prefixes dropped, CR in text, comment data "
                "starting/ending with '-', trailing solidus glued to an unquoted value.",
     not_decided=["lexical lemma: output re-tokenises to the same tokens", "Entity tokens", "encoded output (bytes)"],
     explanation="loop body under a step contract, bounded in attribute count")


prop("C12",
     level="proof",
     frames=True,
     level_text="Frame contract over HTMLParser, its 23 phase classes, the three TreeBuilder classes and HTMLSerializer, "
                "generated from the real AST on every run (spec/frames.py, pyvc/frames.py): every field any participating "
                "method assigns, deletes or mutates in place is either assigned, on every path through the function each "
                "public call runs first (_parse+reset, TreeBuilder.reset, the head of serialize), from a value that cannot "
                "carry an earlier call's state (constant, fresh container, constructor call, parameter), or belongs to an "
                "object created anew there (phases, tokenizer, stream), or follows a checked write-before-read protocol "
                "(parser.originalPhase). Because re-initialisation happens at the start of the NEXT call, it does not matter "
                "how the previous call ended (strict ParseError, exception from the source). Process-wide state: every "
                "module-level or closure-held mutable written from a function is a memo table whose stored value depends only "
                "on the parameters its key is computed from; the shared entities trie is not written by the methods the "
                "tokenizer calls. Plus the reset/charsUntil contracts of the input stream and the serializer's loop frame "
                "(in_cdata is a local of serialize) proved by pyvc.",
     level_note="Decided syntactically (write sets and must-assignment over the AST; no solver needed), an over-approximation: a "
                "harmless new field that is not re-initialised is reported. Trusted: the path resolver of spec/frames.py; "
                "per-document ownership of tree nodes; writes through aliases are not tracked; C extensions (expat, minidom). "
                "NOT decided: thread interleavings (beyond: independent parsers share only the memo tables above), a fresh "
                "interpreter versus a warmed one beyond memo transparency.",
     not_decided=["thread interleavings", "tree walkers and filters (constructed per call)", "state inside C extensions"],
     explanation="frame obligations: write set of a call within what the next call re-initialises")


prop("C04",
     level="proof",
     level_text="Contracts on the etree builder's node primitives against the DOM-like abstract view [text, child, text, ...] "
                "(the dom builder's primitives are one-line minidom calls, taken as the specification): appendChild, "
                "insertBefore, removeChild, insertText (with and without a reference node), hasContent and reparentChildren "
                "change the view exactly as the DOM operation does and keep the representation invariant "
                "'_childNodes mirrors the ElementTree children' -- explored for wrappers with 0..3 children and every position "
                "(bounded stand-in, not counted as proved; text/tails arbitrary). Proved without bound: the Clark-notation tag "
                "follows name and namespace (_getETreeTag, _setName, _setNamespace). Ground/bounded on the real modules: the "
                "ElementTree model used by the contracts agrees with xml.etree on all operation sequences up to length 4; "
                "attribute dicts as the parser produces them read back identically from both builders.",
     level_note="Trusted: pyvc, z3, spec/etmodel.py (validated as above), minidom as the meaning of the DOM operations. Assumed: "
                "removeChild is only applied to nodes that no text follows (open elements). NOT decided: that the backend-neutral "
                "algorithm (base.py, html5parser.py) calls the primitives identically for both builders (it is the same code, but "
                "fragment extraction and getDocument differ per backend), comments/doctype wrappers, cloneNode, namespaceHTMLElements "
                "off. One known finding (dom: 'href' lost next to 'xlink:href').",
     not_decided=["whole-parse equivalence of the two builders", "getDocument/getFragment", "cloneNode", "namespaceHTMLElements=False"],
     explanation="node primitives of the etree builder against the DOM view, bounded in child count")


prop("C01",
     level="proof",
     level_text="Component contracts of the tree-construction algorithm, NOT the whole algorithm: (1) proved for a stack of "
                "open elements of any depth and an arbitrary current node: the tree construction dispatcher in mainLoop hands every "
                "token to the current insertion mode or to the foreign-content rules exactly as the standard prescribes (integration "
                "points, mglyph/malignmark, annotation-xml + svg) through the method of its kind, once, and reports an "
                "unacknowledged trailing solidus; 117 handlers of nineteen insertion modes (before head, in head, in head noscript, after head, in body, text, in table, in table text, in caption, in column group, in table body, in row, in cell, in select, in frameset, after body, after after body, after frameset, after after frameset) perform the standard's steps for their tags, "
                "in order, as a log of abstract tree-builder operations plus the resulting flags/mode/stack depth (bounded "
                "stand-in: abstract parser/tree with an uninterpreted scope predicate, one handler at a time; "
                "contracts/inbody_handlers.py); generateImpliedEndTags pops exactly the run of implied-end-tag elements (the "
                "standard's list) other than the excluded one, touches nothing else, terminates (measure: stack depth) and "
                "does not recurse; (2) bounded stand-ins (not counted): elementInScope agrees with the standard's 'has an "
                "element in the specific scope' for all five scopes on stacks of up to 4 elements of arbitrary names; "
                "elementInActiveFormattingElements returns the last matching entry after the last marker (lists up to 4); "
                "getTableMisnestedNodePosition returns the standard's foster-parenting place (stacks of up to 4 elements, each with "
                "or without a parent) and TreeBuilder.insertText sends text to the current node or to that place (same bound); "
                "reconstructActiveFormattingElements re-creates exactly the entries after the last marker / still-open entry, in "
                "order (lists up to 3); clearActiveFormattingElements pops through the last marker (lists up to 4); "
                "the etree builder's insertBefore keeps its shadow child list (C04 contracts serve C01); (3) ground: the scope "
                "boundary sets, invert flags, formatting elements, headings and the special category against the standard's "
                "tables (spec/treeconstruction.py); every insertion-mode class handles every token kind.",
     level_note="The property quantifies over the whole parser (23 insertion modes x token kinds x stack shapes); a contract per "
                "handler method against a transcription of the standard is out of reach of this revision, so what is decided is "
                "the list above and nothing else -- a change inside a phase method that is not among the 117 handlers under contract (e.g. the adoption agency, "
                "every table mode) is NOT noticed. "
                "Known findings: template unsupported, rb/rtc unsupported, special category lags the standard.",
     not_decided=["insertion-mode handlers other than the 109 listed in contracts/inbody_handlers.py listed in contracts/inbody_handlers.py", "adoption agency algorithm", "foster parenting",
                  "reconstruct the active formatting elements", "foreign content / integration points", "fragment parsing"],
     explanation="helper functions over the stack of open elements and the algorithm's tables; handlers not covered")


prop("C03",
     level="proof",
     level_text="Component contracts for totality, NOT the whole parser: generateImpliedEndTags terminates for every stack "
                "(decreasing measure) without recursion and never indexes an empty stack given the html element at the bottom "
                "(proved, any depth); elementInScope returns (never reaches its assert False) on stacks starting with html "
                "(bounded, up to 4 elements); every insertion-mode class has a handler for every token kind and complete "
                "dispatch tables with defaults (ground); every insertion-mode handler that can hand its token back to mainLoop for "
                "reprocessing (48 handlers found in the AST; one excluded with its reason) does so only after changing the "
                "insertion mode or shortening the stack of open elements -- no handler can make mainLoop spin on the same token in "
                "the same state -- against an abstract parser/tree with uninterpreted scope tests, real delegate phases with their "
                "dispatch tables, pop-until loops unrolled 3 times and three assumed mode invariants (bounded stand-in, not counted); "
                "numeric character references of any length do not raise (C14 "
                "contract of consumeNumberEntity, tagged C03); every parse-error code has a formattable message (C16).",
     level_note="NOT decided: termination of mainLoop's reprocessing chains beyond the one-step progress above (no global measure), the ~20 'assert self.parser.innerHTML' sites, the "
                "document skeleton invariant (one html root with head then body/frameset), recursion in the tree builders and "
                "walkers on deep trees, bytes input. A change that makes a phase loop for ever or skip the implied body is NOT "
                "noticed by this revision.",
     not_decided=["termination of HTMLParser.mainLoop", "innerHTML-only assertions", "document skeleton invariant",
                  "depth of recursion in tree builders/walkers/serializer on deep trees"],
     explanation="termination and safety of the stack helpers; dispatch totality; handlers not covered")


prop("C07",
     level="proof",
     frames=True,
     level_text="Necessary conditions of the round trip, component by component, NOT the round trip itself: the optional-tag "
                "filter omits a tag only where the standard's omission rule allows it and otherwise only drops tokens (C13 "
                "contracts, for all tag names and neighbours); the serializer's loop body writes text, comments, end tags and "
                "attribute values under the lexical conditions that make them read back as the same token, with the raw-text "
                "flag local to one call (C08 step contract, bounded in attribute count); every code point the encoder replaces "
                "is written as a reference that decodes back to it (ground, all 0x110000 code points). The filters carry no "
                "state from token to token (frame obligation).",
     level_note="The composition 'these lexical conditions imply parse(serialize(t)) == t' needs the tokenizer and tree-construction "
                "semantics (C02 per-state contracts exist, C01 handlers do not) and is NOT mechanised: a change on the parser side "
                "that breaks the round trip is NOT noticed here. Known findings inherited from C13 (</p> before datagrid/dialog/dir) "
                "and C08/C14 (C1 controls written as numeric references).",
     not_decided=["the composition lemma (needs C01)", "tree walkers (C11 covers their token stream)", "attribute sorting and meta "
                  "charset injection (C18, C15)", "boolean attribute minimisation in the quick tier"],
     explanation="component obligations of serializer and optional-tag filter; composition not mechanised")


prop("C10",
     level="proof",
     frames=True,
     level_text="Component obligations, NOT the re-parse itself: the sanitizer's gates hold for every token and arbitrary "
                "allow-lists (C09 contracts: disallowed elements become text tokens, attributes/URLs/CSS filtered), the filter "
                "keeps no state between tokens (frame), no element on the default allow-list has a raw-text name, so after the "
                "sanitizer the serializer's raw-text state is unreachable (ground) and every text token goes through the escaping "
                "branch, which writes neither '<' nor '>' and escapes '&' (C08 step contract); attribute values are always quoted "
                "or free of the characters that end an unquoted value, with '&' escaped.",
     level_note="That escaped text and quoted attribute values cannot be re-interpreted as markup by the parser in any context "
                "(foreign content, select, tables, noscript with scripting on) is an argument over the tokenizer states (C02: "
                "text without '<' produces only character tokens in the data and RCDATA states) that is NOT mechanised end to "
                "end here. Custom allow-lists that admit style/script/xmp/iframe/noembed/noframes/noscript are outside the ground "
                "obligation.",
     not_decided=["re-parse in every context (composition with C02/C01)", "custom allow-lists admitting raw-text elements",
                  "comments: the sanitizer drops them (C09 clause), conditional comments in re-parse not considered"],
     explanation="sanitizer gates + serializer escaping + allow-list/raw-text disjointness; composition not mechanised")

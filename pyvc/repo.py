"""Access to the real source under verification.

Everything the engine knows about html5lib comes from here, re-read on every run:
  * the AST of the real files under $H5V_REPO (default /repo), located by qualified name;
  * module-level constants, obtained by importing the real module in /venv/bin/python
    (a subprocess; the engine itself never imports html5lib) and dumping its globals.
"""
import ast
import hashlib
import json
import os
import subprocess
import sys

VERIF = os.path.dirname(os.path.dirname(os.path.abspath(__file__)))
REPO = os.environ.get("H5V_REPO", "/repo")
REALPY = os.environ.get("H5V_PYTHON", "/venv/bin/python")
BUILD = os.path.join(VERIF, "build")


def repo_path(modname):
    """html5lib.filters.optionaltags -> /repo/html5lib/filters/optionaltags.py"""
    p = os.path.join(REPO, *modname.split("."))
    if os.path.isdir(p):
        return os.path.join(p, "__init__.py")
    return p + ".py"


def tree_hash():
    h = hashlib.sha256()
    root = os.path.join(REPO, "html5lib")
    for d, dirs, files in sorted(os.walk(root)):
        dirs[:] = sorted(x for x in dirs if x not in ("tests", "__pycache__"))
        for f in sorted(files):
            if f.endswith(".py"):
                p = os.path.join(d, f)
                h.update(p.encode())
                with open(p, "rb") as fh:
                    h.update(fh.read())
    return h.hexdigest()[:16]


_DUMPER = r'''
import sys, json, re, types
sys.path.insert(0, sys.argv[1])
import importlib
mod = importlib.import_module(sys.argv[2])
def enc(v, depth=0):
    if v is None or isinstance(v, (bool, int, str)):
        return {"t": "lit", "v": v}
    if isinstance(v, float):
        return {"t": "opaque", "repr": repr(v)}
    if isinstance(v, bytes):
        return {"t": "bytes", "v": list(v)}
    if depth > 6:
        return {"t": "opaque", "repr": "deep"}
    if isinstance(v, tuple):
        return {"t": "tuple", "v": [enc(x, depth+1) for x in v]}
    if isinstance(v, list):
        return {"t": "list", "v": [enc(x, depth+1) for x in v]}
    if isinstance(v, (set, frozenset)):
        try:
            items = sorted(v, key=lambda x: (str(type(x)), x))
        except TypeError:
            items = list(v)
        return {"t": "frozenset", "v": [enc(x, depth+1) for x in items]}
    if isinstance(v, dict):
        return {"t": "dict", "cls": type(v).__name__, "v": [[enc(k, depth+1), enc(x, depth+1)] for k, x in v.items()]}
    if isinstance(v, re.Pattern):
        return {"t": "re", "pattern": v.pattern if isinstance(v.pattern, str) else list(v.pattern),
                "bytes": isinstance(v.pattern, bytes), "flags": v.flags}
    if isinstance(v, types.ModuleType):
        return {"t": "module", "name": v.__name__}
    if isinstance(v, type):
        return {"t": "class", "module": v.__module__, "qualname": v.__qualname__}
    if isinstance(v, (types.FunctionType, types.BuiltinFunctionType, types.MethodType)):
        return {"t": "func", "module": getattr(v, "__module__", None), "qualname": getattr(v, "__qualname__", repr(v))}
    return {"t": "opaque", "repr": repr(v)[:200], "cls": type(v).__module__ + "." + type(v).__qualname__}
out = {}
for k, v in vars(mod).items():
    if k.startswith("__") and k.endswith("__"):
        continue
    try:
        out[k] = enc(v)
    except Exception as e:
        out[k] = {"t": "opaque", "repr": "enc-error %r" % (e,)}
json.dump(out, sys.stdout)
'''


class Opaque(object):
    def __init__(self, d):
        self.d = d

    def __repr__(self):
        return "<Opaque %s>" % (self.d.get("repr"),)


class ReConst(object):
    """A compiled regular expression constant of the real module."""
    def __init__(self, pattern, flags, is_bytes=False):
        self.pattern = pattern
        self.flags = flags
        self.is_bytes = is_bytes

    def __repr__(self):
        return "ReConst(%r, %r)" % (self.pattern, self.flags)

    def __eq__(self, o):
        return isinstance(o, ReConst) and (self.pattern, self.flags) == (o.pattern, o.flags)

    def __hash__(self):
        return hash((self.pattern, self.flags))


class FuncRef(object):
    def __init__(self, module, qualname):
        self.module, self.qualname = module, qualname

    def __repr__(self):
        return "FuncRef(%s.%s)" % (self.module, self.qualname)


class ClassRef(object):
    def __init__(self, module, qualname):
        self.module, self.qualname = module, qualname

    def __repr__(self):
        return "ClassRef(%s.%s)" % (self.module, self.qualname)


class ModuleRef(object):
    def __init__(self, name):
        self.name = name

    def __repr__(self):
        return "ModuleRef(%s)" % self.name


class ConstDict(dict):
    """A dict constant; marks that it came from the real module."""
    cls = "dict"


def dec(d):
    t = d["t"]
    if t == "lit":
        return d["v"]
    if t == "bytes":
        return bytes(d["v"])
    if t == "tuple":
        return tuple(dec(x) for x in d["v"])
    if t == "list":
        return tuple(dec(x) for x in d["v"])      # module-level lists are treated as immutable sequences
    if t == "frozenset":
        return frozenset(dec(x) for x in d["v"])
    if t == "dict":
        r = ConstDict()
        for k, v in d["v"]:
            r[dec(k)] = dec(v)
        r.cls = d.get("cls", "dict")
        return r
    if t == "re":
        p = d["pattern"]
        if d.get("bytes"):
            p = bytes(p)
        return ReConst(p, d["flags"], d.get("bytes", False))
    if t == "module":
        return ModuleRef(d["name"])
    if t == "class":
        return ClassRef(d["module"], d["qualname"])
    if t == "func":
        return FuncRef(d["module"], d["qualname"])
    return Opaque(d)


_consts_cache = {}


def module_consts(modname):
    """Globals of the real module, decoded. Cached on disk per tree hash."""
    if modname in _consts_cache:
        return _consts_cache[modname]
    os.makedirs(os.path.join(BUILD, "consts"), exist_ok=True)
    key = "%s.%s.json" % (modname, tree_hash())
    path = os.path.join(BUILD, "consts", key)
    raw = None
    if os.path.exists(path):
        try:
            with open(path) as fh:
                raw = json.load(fh)
        except Exception:
            raw = None
    if raw is None:
        env = dict(os.environ)
        env.pop("PYTHONPATH", None)
        out = subprocess.run([REALPY, "-c", _DUMPER, REPO, modname], capture_output=True, text=True, env=env)
        if out.returncode != 0:
            raise RuntimeError("cannot import real module %s: %s" % (modname, out.stderr[-2000:]))
        raw = json.loads(out.stdout)
        tmp = path + ".%d.tmp" % os.getpid()
        with open(tmp, "w") as fh:
            json.dump(raw, fh)
        os.replace(tmp, path)
    r = {k: dec(v) for k, v in raw.items()}
    _consts_cache[modname] = r
    return r


class FunctionInfo(object):
    def __init__(self, module, qualname, node, cls=None):
        self.module = module          # ModuleInfo
        self.qualname = qualname
        self.node = node
        self.cls = cls                # ClassInfo or None
        self._ord = None

    @property
    def fullname(self):
        return self.module.name + "." + self.qualname

    def source_segment(self):
        return ast.get_source_segment(self.module.source, self.node) or ""

    def sha256(self):
        return hashlib.sha256(ast.dump(self.node).encode()).hexdigest()[:16]

    def lines(self):
        return (self.node.lineno, self.node.end_lineno)

    def site_ordinal(self, node):
        """Stable id of an AST node inside this function: <NodeType><ordinal among same type>."""
        if self._ord is None:
            self._ord = {}
            counts = {}
            for n in ast.walk(self.node):
                t = type(n).__name__
                counts[t] = counts.get(t, 0) + 1
                self._ord[id(n)] = "%s%d" % (t, counts[t])
        return self._ord.get(id(node), "?")

    def __repr__(self):
        return "<fn %s>" % self.fullname


class ClassInfo(object):
    def __init__(self, module, qualname, node, scope_names=None):
        self.module = module
        self.qualname = qualname
        self.node = node
        self.methods = {}
        self.attrs = {}      # class-level simple assignments: name -> ast expr
        self.scope_names = scope_names or {}
        for st in node.body:
            if isinstance(st, (ast.FunctionDef,)):
                self.methods[st.name] = FunctionInfo(module, qualname + "." + st.name, st, self)
            elif isinstance(st, ast.Assign) and len(st.targets) == 1 and isinstance(st.targets[0], ast.Name):
                self.attrs[st.targets[0].id] = st.value

    @property
    def fullname(self):
        return self.module.name + "." + self.qualname

    def bases(self):
        out = []
        for b in self.node.bases:
            r = self.module.resolve_expr_static(b, self.scope_names)
            if isinstance(r, ClassInfo):
                out.append(r)
        return out

    def mro(self):
        seen, out = set(), []
        todo = [self]
        while todo:
            c = todo.pop(0)
            if id(c) in seen:
                continue
            seen.add(id(c))
            out.append(c)
            todo = c.bases() + todo if False else todo + c.bases()
        return out

    def find_method(self, name, after=None):
        mro = self.mro()
        if after is not None:
            idx = [i for i, c in enumerate(mro) if c is after]
            mro = mro[idx[0] + 1:] if idx else mro
        for c in mro:
            if name in c.methods:
                return c.methods[name]
        return None

    def find_attr(self, name):
        for c in self.mro():
            if name in c.attrs:
                return c, c.attrs[name]
        return None

    def __repr__(self):
        return "<class %s>" % self.fullname


class ModuleInfo(object):
    def __init__(self, name, path, loader=None):
        self.name = name
        self.path = path
        with open(path, encoding="utf-8") as fh:
            self.source = fh.read()
        self.tree = ast.parse(self.source, filename=path)
        self.functions = {}
        self.classes = {}
        self.imports = {}     # local name -> (module, attr or None)
        self._loader = loader
        self.is_repo = name.startswith("html5lib")
        for st in self.tree.body:
            self._index(st)

    def _index(self, st):
        if isinstance(st, ast.FunctionDef):
            self.functions[st.name] = FunctionInfo(self, st.name, st)
        elif isinstance(st, ast.ClassDef):
            self.classes[st.name] = ClassInfo(self, st.name, st)
        elif isinstance(st, ast.ImportFrom):
            base = self.name.split(".")
            if os.path.basename(self.path) != "__init__.py":
                base = base[:-1]
            if st.level:
                base = base[:len(base) - (st.level - 1)]
                modname = ".".join(base + ([st.module] if st.module else []))
            else:
                modname = st.module
            for a in st.names:
                self.imports[a.asname or a.name] = (modname, a.name)
        elif isinstance(st, ast.Import):
            for a in st.names:
                self.imports[a.asname or a.name.split(".")[0]] = (a.name if a.asname else a.name.split(".")[0], None)
        elif isinstance(st, (ast.If, ast.Try)):
            # module-level conditionals (version switches): index definitions in all arms;
            # actual values come from the real module's globals.
            for sub in ast.iter_child_nodes(st):
                if isinstance(sub, ast.stmt):
                    self._index(sub)
            for field in ("body", "orelse", "finalbody"):
                for sub in getattr(st, field, []) or []:
                    self._index(sub)

    def consts(self):
        if self._loader is not None:
            return self._loader()
        return module_consts(self.name)

    def nested_function(self, qualname):
        """Locate a function by qualified name, descending through functions and classes
        (e.g. getETreeBuilder.<locals>.Element.insertBefore -> 'getETreeBuilder.Element.insertBefore')."""
        parts = [p for p in qualname.split(".") if p != "<locals>"]
        node = self.tree
        cls = None
        scope = {}
        path = []
        for i, p in enumerate(parts):
            found = None
            for st in ast.walk(node) if isinstance(node, ast.FunctionDef) else ast.iter_child_nodes(node):
                if isinstance(st, (ast.FunctionDef, ast.ClassDef)) and st.name == p and st is not node:
                    found = st
                    break
            if found is None:
                return None
            path.append(p)
            if isinstance(node, ast.FunctionDef):
                # names defined in the enclosing function: sibling classes
                for st in node.body:
                    if isinstance(st, ast.ClassDef):
                        scope[st.name] = st
            if isinstance(found, ast.ClassDef):
                if len(path) == 1 and p in self.classes:
                    cls = self.classes[p]
                else:
                    scope_infos = {}
                    cls = ClassInfo(self, ".".join(path), found, scope_infos)
                    for nm, nd in scope.items():
                        scope_infos[nm] = cls if nd is found else ClassInfo(self, ".".join(path[:-1] + [nm]), nd, scope_infos)
            node = found
        if isinstance(node, ast.FunctionDef):
            if cls is not None and node.name in cls.methods and cls.methods[node.name].node is node:
                return cls.methods[node.name]
            return FunctionInfo(self, ".".join(path), node, None)
        if isinstance(node, ast.ClassDef):
            return cls
        return None

    def resolve_expr_static(self, expr, scope_names=None):
        """Resolve a base-class expression (Name or dotted) to ClassInfo if possible."""
        if isinstance(expr, ast.Name):
            if scope_names and expr.id in scope_names:
                return scope_names[expr.id]
            if expr.id in self.classes:
                return self.classes[expr.id]
            if expr.id in self.imports:
                modname, attr = self.imports[expr.id]
                if attr is None:
                    return None
                try:
                    m = get_module(modname)
                except Exception:
                    return None
                if m and attr in m.classes:
                    return m.classes[attr]
                if m and attr in m.imports:
                    return m.resolve_expr_static(ast.Name(id=attr), None)
            return None
        if isinstance(expr, ast.Attribute) and isinstance(expr.value, ast.Name):
            nm = expr.value.id
            if nm in self.imports:
                modname, attr = self.imports[nm]
                target = modname if attr is None else modname + "." + attr
                try:
                    m = get_module(target)
                except Exception:
                    return None
                if m and expr.attr in m.classes:
                    return m.classes[expr.attr]
        return None


_modules = {}
_extra_roots = {}     # module name prefix -> directory (sidecars, stdlib sources)


def register_root(prefix, directory):
    _extra_roots[prefix] = directory


def get_module(name):
    if name in _modules:
        return _modules[name]
    path = None
    loader = None
    if name == "html5lib" or name.startswith("html5lib."):
        path = repo_path(name)
    else:
        top = name.split(".")[0]
        if top in _extra_roots:
            base = os.path.join(_extra_roots[top], *name.split(".")[1:])
            path = os.path.join(base, "__init__.py") if os.path.isdir(base) else base + ".py"

            def loader(name=name):
                import importlib
                mod = importlib.import_module(name)
                return {k: v for k, v in vars(mod).items() if not (k.startswith("__") and k.endswith("__"))}
    if path is None or not os.path.exists(path):
        _modules[name] = None
        return None
    m = ModuleInfo(name, path, loader)
    _modules[name] = m
    return m


def find_function(fullname):
    """'html5lib.filters.optionaltags.Filter.is_optional_start' -> FunctionInfo."""
    parts = fullname.split(".")
    for i in range(len(parts) - 1, 0, -1):
        modname = ".".join(parts[:i])
        if modname.startswith("html5lib"):
            p = repo_path(modname)
            if not os.path.exists(p):
                continue
        m = get_module(modname)
        if m is None:
            continue
        r = m.nested_function(".".join(parts[i:]))
        if r is not None:
            return r
        # a method the class inherits: the contract then speaks about the inherited code
        if len(parts) - i >= 2:
            c = m.nested_function(".".join(parts[i:-1]))
            if isinstance(c, ClassInfo):
                inherited = c.find_method(parts[-1])
                if inherited is not None:
                    return inherited
    raise KeyError("function not found in source: " + fullname)


def module_ast(name):
    m = get_module(name)
    if m is None:
        raise KeyError(name)
    return m.tree

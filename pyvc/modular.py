"""Modular call rule and clause evaluation."""
import ast

from . import repo
from .values import Obj, DictV, ListV, SetV, Namespace, Sym
from .engine import OutOfReach, PathEnd, PyRaise


def snapshot(v, memo=None):
    """Deep copy of the mutable object graph (values themselves are immutable)."""
    memo = memo if memo is not None else {}
    if isinstance(v, Obj):
        if v.oid in memo:
            return memo[v.oid]
        n = Obj(v.cls, {}, v.name)
        n.oid = v.oid
        n.methods = v.methods
        memo[v.oid] = n
        for k, x in v.fields.items():
            n.fields[k] = snapshot(x, memo)
        return n
    if isinstance(v, DictV):
        if v.oid in memo:
            return memo[v.oid]
        n = DictV(cls=v.cls)
        n.oid = v.oid
        memo[v.oid] = n
        for k, (x, p) in v.entries.items():
            n.entries[k] = [snapshot(x, memo), p]
        if v.abstract is not None:
            n.abstract = v.abstract.copy()
        if v.sym_items is not None:
            n.sym_items = [[snapshot(k, memo), snapshot(x, memo)] for k, x in v.sym_items]
        return n
    if isinstance(v, ListV):
        if v.oid in memo:
            return memo[v.oid]
        n = ListV([], cls=v.cls, prefix=v.prefix)
        n.view = getattr(v, "view", None)
        n.oid = v.oid
        memo[v.oid] = n
        n.items = [snapshot(x, memo) for x in v.items]
        return n
    if isinstance(v, SetV):
        n = SetV([snapshot(x, memo) for x in v.items])
        return n
    if isinstance(v, tuple):
        return tuple(snapshot(x, memo) for x in v)
    if isinstance(v, dict) and not isinstance(v, repo.ConstDict):
        return {k: snapshot(x, memo) for k, x in v.items()}
    return v


def clause_function(contract, clause):
    m = repo.get_module(contract.module)
    if m is None:
        raise OutOfReach("side-car module %s not found" % contract.module)
    fi = m.nested_function(contract.holder.__qualname__ + "." + clause.name)
    if fi is None:
        # clause defined elsewhere (shared helper): locate by its own qualname
        fi = repo.get_module(clause.fn.__module__).nested_function(clause.fn.__qualname__)
    if fi is None:
        raise OutOfReach("clause source not found: %s.%s" % (contract.name, clause.name))
    return fi


def plain_function(fn):
    """FunctionInfo of a plain python function object defined in a side-car/spec module."""
    m = repo.get_module(fn.__module__)
    if m is None:
        raise OutOfReach("module %s not registered" % fn.__module__)
    fi = m.nested_function(fn.__qualname__)
    if fi is None:
        raise OutOfReach("source of %s not found" % fn.__qualname__)
    return fi


def call_spec(I, fi, env):
    params = [a.arg for a in fi.node.args.args]
    kwargs = {}
    for p in params:
        if p in env:
            kwargs[p] = env[p]
        else:
            d = fi.node.args.defaults
            if len(d) and p in params[len(params) - len(d):]:
                continue
            raise MissingState("clause %s needs %s which is not available here" % (fi.qualname, p))
    try:
        return I.call_function(fi, [], kwargs, top=True, spec=True)
    except PyRaise as e:
        raise ContractError("contract clause %s raised %s: %s" % (fi.qualname, e.name, e.msg))


class MissingState(OutOfReach):
    """A clause names a local/parameter that the code (no longer) has."""


class ContractError(Exception):
    """A clause of a side-car raised: an error of the contract text, never a verdict about the code."""


def eval_clause(I, contract, clause, env):
    return call_spec(I, clause_function(contract, clause), env)


def apply_contract(I, contract, fn, args, kwargs, node):
    from .factory import Factory
    ctx = I.ctx
    loc = I.bind(fn, args, kwargs)
    env = dict(loc)
    site = "L%d" % getattr(node, "lineno", 0) if node is not None else "?"
    caller = ctx.current_task or "?"
    for cl in contract.requires:
        for extra, v in ctx.sub_explore(lambda: I.truth(eval_clause(I, contract, cl, env))):
            from . import builtins_ as B
            cond = B.z_implies(B.z_and(extra), v)
            ctx.oblige("%s/call:%s/requires:%s" % (caller, fn.qualname, cl.name), "call-requires",
                       cond, detail=site, tags=("C03",))
    old = snapshot(env)
    S = Factory(ctx, I)
    if contract.raises:
        # the callee may raise as declared: explore that possibility too
        names = sorted(contract.raises)
        k = ctx.choose(len(names) + 1)
        if k < len(names):
            when = contract.raises[names[k]]
            if when is not True:
                v = call_spec(I, plain_function(when), env)
                ctx.assume(I.truth(v))
            raise PyRaise(names[k], "raised by %s (contract)" % fn.qualname, site=node)
    if contract.assume_native is not None:
        # solver-friendly statement of the same postcondition (word equations instead of slicing);
        # that it implies every clause of the contract is itself an obligation, checked at the first
        # use in each task (kind "native-implies-clause")
        result = contract.assume_native(S, Namespace(env), I)
        key = ("native-checked", contract.target)
        if key not in ctx.native_checked:
            ctx.native_checked.add(key)
            env2 = dict(env)
            env2["old"] = Namespace(old)
            env2["result"] = result
            for cl in contract.ensures:
                for extra, v in ctx.sub_explore(lambda: I.truth(eval_clause(I, contract, cl, env2))):
                    from . import builtins_ as B
                    ctx.oblige("%s/native-implies:%s" % (contract.target, cl.name), "native-implies-clause",
                               B.z_implies(B.z_and(extra), v), tags=cl.props or contract.props)
        ctx.assumed_contracts.add(contract.target)
        return result
    if contract.havoc is not None:
        contract.havoc(S, Namespace(env))
    result = contract.result(S, Namespace(env)) if contract.result is not None else None
    env2 = dict(env)
    env2["old"] = Namespace(old)
    env2["result"] = result
    ctx.assuming += 1
    try:
        for cl in contract.ensures:
            if "final" in [a.arg for a in clause_function(contract, cl).node.args.args]:
                continue        # clause about the callee's internals: proved of the callee, not usable by callers
            v = eval_clause(I, contract, cl, env2)
            tv = I.truth(v)
            site = (contract.target, getattr(node, "lineno", 0), cl.name)
            cnt = ctx.modular_sites.setdefault(site, [0, 0])
            if tv is False:
                # false outright on this fork of the havocked result: fine if another fork satisfies it, a vacuity
                # hazard if none ever does (checked when the task ends)
                cnt[0] += 1
            else:
                cnt[1] += 1
            ctx.assume(tv)
    finally:
        ctx.assuming -= 1
    ctx.assumed_contracts.add(contract.target)
    return result

"""Library contracts of the `re` module on compiled patterns that are constants of the real module.

match/search/fullmatch: language membership (z3 regex).  findall/sub: only in the shapes html5lib
uses; the result is an opaque function of (pattern, replacement, subject) plus sound facts about it.
"""
import re
import z3

from .repo import ReConst
from .values import SStr, SInt, SBool, ListV, is_strlike, zs, zi, mk_str, mk_int, mk_bool
from .engine import OutOfReach, PyRaise
from . import regex2smt
from . import builtins_ as B

try:
    import re._parser as sre_parse
    import re._constants as sre_c
except ImportError:      # pragma: no cover
    import sre_parse
    import sre_constants as sre_c


def single_class_plus(pattern, flags=0):
    """If pattern is `[class]+` (or `x+`) return the class as sorted (lo,hi) ranges, else None."""
    try:
        p = sre_parse.parse(pattern, flags)
    except Exception:
        return None
    seq = list(p)
    if len(seq) != 1 or seq[0][0] not in (sre_c.MAX_REPEAT,):
        return None
    lo, hi, sub = seq[0][1]
    if lo != 1 or hi != sre_c.MAXREPEAT or len(sub) != 1:
        return None
    op, av = sub[0]
    if op is sre_c.IN:
        return tuple(sorted(regex2smt.class_ranges(av, flags)))
    if op is sre_c.LITERAL:
        return ((av, av),)
    if op is sre_c.NOT_LITERAL:
        # `[^x]+` is compiled to a negated literal
        return tuple(sorted(regex2smt._complement_ranges([(av, av)])))
    return None


def class_regex(ranges):
    return regex2smt._union([regex2smt._range(lo, hi) for lo, hi in ranges])


def notclass_regex(ranges):
    return regex2smt._union([regex2smt._range(lo, hi) for lo, hi in regex2smt._complement_ranges(list(ranges))])


def sub_class_plus(I, ranges, repl, z):
    """re.sub('[C]+', repl, s) for a literal repl: opaque function + facts."""
    ctx = I.ctx
    name = "resub_%x_%s" % (hash(tuple(ranges)) & 0xffffffff, "".join("%02x" % ord(c) for c in repl))
    f = ctx.opaque_fn(name, [z3.StringSort()], z3.StringSort())
    r = f(z)
    cls, ncls = class_regex(ranges), notclass_regex(ranges)
    # no character of the class: unchanged
    ctx.assume(z3.Implies(z3.InRe(z, z3.Star(ncls)), r == z))
    if len(repl) <= 1:
        ctx.assume(z3.Length(r) <= z3.Length(z))
    # shape of the result: runs of non-class characters separated by single copies of repl
    rr = z3.Re(z3.StringVal(repl))
    shape = z3.Concat(z3.Option(rr), z3.Star(z3.Concat(z3.Plus(ncls), rr)), z3.Star(ncls))
    ctx.assume(z3.InRe(r, shape))
    if len(repl) == 1 and any(lo <= ord(repl) <= hi for lo, hi in ranges):
        # the replacement is itself a class character: a subject in which every class character is
        # an isolated copy of it is a fixed point
        ctx.assume(z3.Implies(z3.InRe(z, shape), r == z))
    ctx.assume((z3.Length(z) == 0) == (z3.Length(r) == 0) if repl else z3.BoolVal(True))
    return r


def re_method(I, rc, name, args, kwargs, node=None):
    ctx = I.ctx
    pat, flags = rc.pattern, rc.flags
    if isinstance(pat, bytes):
        raise OutOfReach("bytes regex %r" % (pat,))
    if name == "match" and len(args) == 2 and single_class_plus(pat, flags) is not None:
        # [K]+ matched at a position: the maximal run of class characters starting there
        s, pos = args
        ranges = single_class_plus(pat, flags)
        K, notK = class_regex(ranges), notclass_regex(ranges)
        z, p = zs(s), zi(pos)
        n = z3.Length(z)
        here = z3.SubString(z, p, 1)
        if not ctx.branch(z3.And(p >= 0, p <= n)):
            raise OutOfReach("match position outside the string")
        if ctx.branch(z3.Or(p >= n, z3.Not(z3.InRe(here, K)))):
            return None
        cut = B.split_parts(ctx, z, z3.simplify(p)) if not z3.is_string_value(z) else None
        if cut is not None:
            # word-equation form: the text from the position on is  run ++ tail
            right = cut[1]
            run = ctx.fresh("match_run").z
            tail = ctx.fresh("match_tail").z
            if right.decl().kind() == z3.Z3_OP_SEQ_CONCAT:
                holder = ctx.fresh("match_from").z
                ctx.assume(holder == right)
                right = holder
            ctx.word_equation(right, run, tail)
            ctx.assume(z3.InRe(run, z3.Plus(K)))
            ctx.assume(z3.InRe(tail, z3.Union(z3.Re(z3.StringVal("")), z3.Concat(notK, z3.Star(z3.AllChar(z3.ReSort(z3.StringSort())))))))
            if cut[1].decl().kind() != z3.Z3_OP_SEQ_CONCAT:
                pass
            return B.MatchV(s, mk_int(p), mk_int(p + z3.Length(run)), {})
        e = ctx.fresh("match_end", "int").z
        run = z3.SubString(z, p, e - p)
        ctx.assume(z3.And(e > p, e <= n))
        ctx.assume(z3.InRe(run, z3.Plus(K)))
        ctx.assume(z3.Length(run) == e - p)
        ctx.assume(z3.Or(e == n, z3.InRe(z3.SubString(z, e, 1), notK)))
        # z == z[:p] ++ run ++ z[e:]
        ctx.assume(z == z3.Concat(z3.SubString(z, 0, p), run, z3.SubString(z, e, n - e)))
        return B.MatchV(s, mk_int(p), mk_int(e), {})
    if name in ("match", "search", "fullmatch"):
        s = args[0]
        if len(args) > 1:
            raise OutOfReach("re.%s with pos" % name)
        if isinstance(s, str):
            m = getattr(re.compile(pat, flags), name)(s)
            if m is None:
                return None
            return B.MatchV(s, m.start(), m.end(), {0: m.group(0), **{i + 1: g for i, g in enumerate(m.groups())}})
        if not isinstance(s, SStr):
            raise PyRaise("TypeError", "expected string or bytes-like object", site=node)
        lang = {"match": regex2smt.match_language, "search": regex2smt.search_language,
                "fullmatch": regex2smt.full_language}[name](pat, flags)
        if ctx.branch(z3.InRe(s.z, lang)):
            return B.MatchV(s, None, None, {})
        return None
    if name == "sub":
        repl, s = args[0], args[1]
        if len(args) > 2 or kwargs:
            raise OutOfReach("re.sub with count")
        ranges = single_class_plus(pat, flags)
        if isinstance(s, str) and isinstance(repl, str):
            return re.compile(pat, flags).sub(repl, s)
        if ranges is not None and isinstance(repl, str) and "\\" not in repl:
            return mk_str(sub_class_plus(I, ranges, repl, zs(s)))
        # general shape: opaque function of the subject (pattern and replacement are constants)
        if isinstance(repl, str):
            f = ctx.opaque_fn("resub_%x" % (hash((pat, flags, repl)) & 0xffffffff), [z3.StringSort()], z3.StringSort())
            return mk_str(f(zs(s)))
        raise OutOfReach("re.sub with callable replacement needs a contract")
    if name == "findall":
        s = args[0]
        if isinstance(s, str):
            return ListV(list(re.compile(pat, flags).findall(s)))
        raise OutOfReach("re.findall on a symbolic string needs a contract")
    if name == "split":
        s = args[0]
        if isinstance(s, str):
            return ListV(list(re.compile(pat, flags).split(s)))
        raise OutOfReach("re.split on symbolic string")
    raise OutOfReach("re method %s" % name)


def match_method(I, m, name, args, kwargs, node=None):
    if name == "group":
        k = args[0] if args else 0
        if k in m.groups:
            return m.groups[k]
        if isinstance(m.string, SStr):
            # a capture group of a symbolic match: an (uninterpreted) function of the subject
            f = I.ctx.opaque_fn("regroup_%s" % k, [z3.StringSort()], z3.StringSort())
            return mk_str(f(m.string.z))
        raise OutOfReach("match.group(%r) of a symbolic match" % (k,))
    if name in ("start", "end") and getattr(m, name) is not None:
        return getattr(m, name)
    raise OutOfReach("match.%s of a symbolic match" % name)


@B.library("re.sub")
def _re_sub(I, args, kwargs):
    pat, repl, subj = args[0], args[1], args[2]
    flags = kwargs.get("flags", args[4] if len(args) > 4 else 0)
    if not isinstance(pat, str):
        raise OutOfReach("re.sub with symbolic pattern")
    return re_method(I, ReConst(pat, flags), "sub", [repl, subj], {}, None)


@B.library("re.search")
def _re_search(I, args, kwargs):
    return re_method(I, ReConst(args[0], args[2] if len(args) > 2 else 0), "search", [args[1]], {}, None)


@B.library("re.match")
def _re_match(I, args, kwargs):
    return re_method(I, ReConst(args[0], args[2] if len(args) > 2 else 0), "match", [args[1]], {}, None)


@B.library("re.compile")
def _re_compile(I, args, kwargs):
    pat = args[0]
    flags = args[1] if len(args) > 1 else 0
    if not isinstance(pat, (str, bytes)) or not isinstance(flags, int):
        raise OutOfReach("re.compile of a symbolic pattern")
    try:
        re.compile(pat, flags)
    except re.error as e:
        raise PyRaise("error", str(e))
    return ReConst(pat, flags, isinstance(pat, bytes))


@B._native("re_sub_class_plus")
def _re_sub_class_plus(I, args, kwargs):
    """spec-side: re_sub_class_plus(chars, repl, s) == re.sub('[chars]+', repl, s)"""
    chars, repl, s = args
    chars = "".join(B.iterate(I, chars)) if not isinstance(chars, str) else chars
    if isinstance(s, str):
        return re.sub("[%s]+" % re.escape(chars), repl, s)
    ranges = tuple(sorted(_merge([(ord(c), ord(c)) for c in chars])))
    return mk_str(sub_class_plus(I, ranges, repl, zs(s)))


def _merge(ranges):
    out = []
    for lo, hi in sorted(set(ranges)):
        if out and out[-1][1] >= lo - 1:
            out[-1] = (out[-1][0], max(out[-1][1], hi))
        else:
            out.append((lo, hi))
    return out


@B._native("re_equiv")
def _re_equiv(I, args, kwargs):
    """spec-side: re_equiv(pattern_a, pattern_b): the two regular expressions denote the same language."""
    a, b = args[0], args[1]
    fa = a.flags if isinstance(a, ReConst) else 0
    fb = b.flags if isinstance(b, ReConst) else 0
    pa = a.pattern if isinstance(a, ReConst) else a
    pb = b.pattern if isinstance(b, ReConst) else b
    ra, rb = regex2smt.full_language(pa, fa), regex2smt.full_language(pb, fb)
    x = I.ctx.fresh("re_equiv_x").z
    return mk_bool(z3.InRe(x, ra) == z3.InRe(x, rb))

"""Thorough-tier bounded stand-in: run-time evaluation of the side-car contracts on the real code over each
contract's own candidate inputs (`candidates()`), under /venv/bin/python.  A clause that evaluates false on a real
input is a violation with that input as the replay; passes are reported under bounded_standins and never counted
as proved.  Returns ground-style records (with the "bounded" field set)."""
import json
import os
import subprocess

from . import repo

VERIF = os.path.dirname(os.path.dirname(os.path.abspath(__file__)))


def run(prop, tier, seed):
    from . import runner
    reg = runner.load_sidecars(runner.all_sidecars())
    out = []
    for mod, tgt, idx, _ in runner.tasks_for(props=[prop]):
        c = reg[tgt][idx]
        if c.call is None or getattr(c.holder, "candidates", None) is None:
            continue
        env = dict(os.environ)
        env["PYTHONPATH"] = VERIF + os.pathsep + repo.REPO
        p = subprocess.run([repo.REALPY, "-m", "pyvc.replay_native", "--sweep", mod, c.holder.__name__, prop],
                           capture_output=True, text=True, env=env, cwd=VERIF, timeout=1800)
        try:
            res = json.loads(p.stdout.strip().splitlines()[-1])
        except Exception:
            out.append({"id": "%s/runtime-contracts" % tgt, "ok": False, "size": 0, "crash": True,
                        "what": "sweep crashed", "witness": (p.stdout + p.stderr)[-1500:], "bounded": "candidate inputs"})
            continue
        for clause, r in sorted(res.items()):
            out.append({"id": "%s/runtime:%s" % (tgt, clause), "ok": not r["failed"], "size": r["cases"],
                        "what": "clause evaluated on the real code for every candidate input of the contract",
                        "witness": r["failed"][:3] or None, "exhaustive": False,
                        "bounded": "%d candidate inputs from %s.%s.candidates()" % (r["cases"], mod, c.holder.__name__)})
    return out

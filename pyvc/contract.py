"""Contract declaration API used by the side-car files in /verif/contracts.

Imported both by the engine (python3-vt; clause bodies are then *parsed* and executed
symbolically) and by the native replay harness (/venv/bin/python; clause bodies are then
ordinary Python).  Must not import z3 or html5lib at module level.
"""
import json

REGISTRY = {}        # target fullname -> [Contract]   (several = several input cases)


class Clause(object):
    def __init__(self, name, fn, props):
        self.name, self.fn, self.props = name, fn, tuple(props)


class LoopSpec(object):
    """Contract of one loop, keyed by its ordinal among the loops of the function
    (While1, For2, ... in ast.walk order).

    havoc(S, L):  native; assigns fresh symbolic values to the locals / fields the loop writes
                  (L is a mutable namespace of the frame's locals).
    invariant:    clause function over locals (by parameter name), `old`, and inputs.
    element(S):   for `for` loops over an abstract iterator: native builder of an arbitrary element.
    step:         list of Clause: obligations at the end of one arbitrary iteration; may use `pre`
                  (locals at the loop head) and `yielded` (values yielded during this iteration).
    decreases:    clause function returning an int measure (must decrease, stay >= 0).
    """
    def __init__(self, havoc=None, invariant=None, element=None, step=(), decreases=None, after=None,
                 unroll=None, props=(), entry=()):
        self.havoc, self.invariant, self.element = havoc, invariant, element
        self.entry = list(entry)          # clauses that must hold when the loop is first reached (may use `yielded`)
        self.step, self.decreases, self.after, self.unroll = list(step), decreases, after, unroll
        self.props = tuple(props)


class Contract(object):
    def __init__(self, target, holder, case=None):
        self.target = target
        self.holder = holder
        self.name = holder.__name__
        self.case = case
        self.props = tuple(getattr(holder, "props", ()))
        self.inputs = _static(holder, "inputs")
        self.call = _static(holder, "call")
        self.result = _static(holder, "result")
        self.havoc = _static(holder, "havoc")
        self.modular = getattr(holder, "modular", True)
        self.raises = dict(getattr(holder, "raises", {}))
        self.loops = dict(getattr(holder, "loops", {}))
        self.ghost = _static(holder, "ghost")
        self.globals = _static(holder, "globals")
        self.assume_native = _static(holder, "assume_native")
        self.lift = _static(holder, "lift")
        self.budget = dict(getattr(holder, "budget", {}))
        self.requires = []
        self.ensures = []
        for k, v in vars(holder).items():
            f = v.__func__ if isinstance(v, staticmethod) else v
            kind = getattr(f, "_clause_kind", None)
            if kind == "requires":
                self.requires.append(Clause(k, f, f._clause_props))
            elif kind == "ensures":
                self.ensures.append(Clause(k, f, f._clause_props or self.props))
        self.module = holder.__module__

    def clause_qualname(self, clause):
        return "%s.%s" % (self.holder.__qualname__, clause.name)


def _static(holder, name):
    v = vars(holder).get(name)
    if v is None:
        return None
    return v.__func__ if isinstance(v, staticmethod) else v


def contract(target, case=None):
    def deco(holder):
        c = Contract(target, holder, case)
        REGISTRY.setdefault(target, []).append(c)
        holder._contract = c
        return holder
    return deco


def requires(*props):
    def deco(f):
        f._clause_kind = "requires"
        f._clause_props = props
        return f
    if len(props) == 1 and callable(props[0]):
        f = props[0]
        props = ()
        return deco(f)
    return deco


def bounded(what):
    """mark an ensures clause as a bounded stand-in (reported separately, never counted as proved)"""
    def deco(f):
        f._bounded = what
        return f
    return deco


def ensures(*props):
    def deco(f):
        f._clause_kind = "ensures"
        f._clause_props = props
        return f
    if len(props) == 1 and callable(props[0]):
        f = props[0]
        props = ()
        return deco(f)
    return deco


def clause(name, fn, *props):
    return Clause(name, fn, props)


# ---- spec-language helpers, native definitions (the engine has symbolic ones of the same name) ----
def implies(a, b):
    return (not a) or bool(b)


def iff(a, b):
    return bool(a) == bool(b)


def in_re(s, pattern, flags=0):
    import re
    if hasattr(pattern, "pattern"):
        return pattern.fullmatch(s) is not None
    return re.fullmatch(pattern, s, flags) is not None


def in_chars(s, chars):
    return all(c in chars for c in s)


def no_chars(s, chars):
    return all(c not in chars for c in s)


def is_str(x):
    return isinstance(x, str)


def is_int(x):
    return isinstance(x, int) and not isinstance(x, bool)


def is_none(x):
    return x is None


def is_dict(x):
    return isinstance(x, dict)


def is_list(x):
    return isinstance(x, list)


def has_key(d, k):
    return k in d


_ORIGIN = {}      # id(snapshot copy) -> id(original): lets native clauses ask `same_object(new, old.x)`


def snapshot(v):
    """deep copy that remembers which object each copy stands for"""
    if isinstance(v, dict):
        c = {k: snapshot(x) for k, x in v.items()}
    elif isinstance(v, list):
        c = [snapshot(x) for x in v]
    else:
        return v
    _ORIGIN[id(c)] = id(v)
    _KEEP.append((c, v))
    return c


_KEEP = []


def same_object(a, b):
    return a is b or _ORIGIN.get(id(a)) == id(b) or _ORIGIN.get(id(b)) == id(a)


def re_sub_class_plus(chars, repl, s):
    import re
    return re.sub("[%s]+" % re.escape(chars), repl, s)


def re_equiv(a, b):
    """native side cannot decide language equality; compare on a sample"""
    import re
    pa = a.pattern if hasattr(a, "pattern") else a
    pb = b.pattern if hasattr(b, "pattern") else b
    sample = ["", " ", "a", "\t\n", " a ", "\x0c\r ", "\u00a0", "ab  c"]
    return all((re.fullmatch(pa, x) is None) == (re.fullmatch(pb, x) is None) for x in sample)


def is_key_prefix(s):
    from html.entities import html5
    return any(k.startswith(s) for k in html5)


def some_key_is_prefix_of(s):
    from html.entities import html5
    return any(s.startswith(k) for k in html5)


def longest_key_prefix(s):
    from html.entities import html5
    c = [k for k in html5 if s.startswith(k)]
    return max(c, key=len) if c else None


def remove_suffix(v, rest):
    return v[:len(v) - len(rest)] if v.endswith(rest) else v


def stack_in_scope(target, variant, stack):
    raise NotImplementedError("abstract predicate: no native meaning")


def is_prefix_list(a, b):
    return len(a) <= len(b) and all(x is y for x, y in zip(a, b))


def is_fresh(obj):
    return isinstance(obj, (list, dict, set))      # natively only the type can be checked


def method_name(m):
    return None if m is None else m.__name__


def appended(old, new):
    return list(new)[len(old):]


def assume_lemma(name, fact):
    assert fact, "instance of assumed lemma %s is false" % name
    return True


def int_value(s, base=10):
    import sys
    if hasattr(sys, "set_int_max_str_digits"):
        sys.set_int_max_str_digits(0)
    return int(s, base)


def code(c):
    return ord(c)


def char(i):
    return chr(i)


class Old(object):
    """Native `old` namespace: deep copies of the inputs taken before the call."""
    def __init__(self, d):
        self.__dict__.update(d)


# ---- literal encoding of concretised inputs (JSON) ------------------------------------------------
def enc(v):
    if v is None or isinstance(v, (bool, int)):
        return v
    if isinstance(v, str):
        return {"$s": [ord(c) for c in v]} if any(0xD800 <= ord(c) <= 0xDFFF for c in v) else v
    if isinstance(v, bytes):
        return {"$b": list(v)}
    if isinstance(v, tuple):
        return {"$t": [enc(x) for x in v]}
    if isinstance(v, list):
        return [enc(x) for x in v]
    if isinstance(v, (set, frozenset)):
        return {"$fs": [enc(x) for x in sorted(v, key=repr)]}
    if isinstance(v, dict):
        return {"$d": [[enc(k), enc(x)] for k, x in v.items()]}
    return {"$repr": repr(v)}


def dec(v):
    if isinstance(v, list):
        return [dec(x) for x in v]
    if isinstance(v, dict):
        if "$s" in v:
            return "".join(chr(c) for c in v["$s"])
        if "$b" in v:
            return bytes(v["$b"])
        if "$t" in v:
            return tuple(dec(x) for x in v["$t"])
        if "$fs" in v:
            return frozenset(dec(x) for x in v["$fs"])
        if "$d" in v:
            return {dec(k): dec(x) for k, x in v["$d"]}
        if "$o" in v:
            return {"__class__": v["$o"], **{k: dec(x) for k, x in v["f"].items()}}
        if "$repr" in v:
            return v
    return v

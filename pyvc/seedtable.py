"""python3-vt -m pyvc.seedtable : markdown table of the seeded changes and which check reported each (from seeded/*/meta.json)"""
import json
import os

VERIF = os.path.dirname(os.path.dirname(os.path.abspath(__file__)))


def main():
    d = os.path.join(VERIF, "seeded")
    print("| change | what it breaks (sub-agent's note, first line) | reported by | obligation that failed |")
    print("|---|---|---|---|")
    for sid in sorted(os.listdir(d)):
        p = os.path.join(d, sid, "meta.json")
        if not os.path.exists(p):
            continue
        m = json.load(open(p))
        need = (m.get("needs") or "").strip().splitlines()
        first = next((l for l in need if l.strip()), "")[:150].replace("|", "/")
        det = m.get("detected_by") or []
        if m.get("neutralised"):
            by, ob = "(neutralised)", m["neutralised"][:160].replace("|", "/")
        elif det:
            by = ", ".join(det)
            ob = ""
            lt = m.get("last_test") or {}
            for k in det:
                for line in (lt.get(k) or {}).get("lines", []):
                    if line.startswith("VIOLATION") and "obligation=" in line:
                        ob = line.split("obligation=")[1].split(" ")[0]
                        break
                if ob:
                    break
            ob = ob.replace("html5lib.", "").replace("|", "/")[:110]
        else:
            by, ob = "**not reported**", (m.get("miss_reason") or "the code it changes is not under contract in this revision")[:200]
        print("| %s | %s | %s | %s |" % (sid, first, by, ob))


if __name__ == "__main__":
    main()

"""Symbolic values of the pyvc engine.

Concrete Python values (str, int, bool, None, tuple, frozenset, bytes) are represented by
themselves.  Symbolic scalars wrap a z3 term.  Mutable objects (instances, dicts, lists)
are Python-side objects with concrete identity whose *contents* may be symbolic: aliasing
is therefore always explicit in the shape a contract builds.
"""
import z3


class Sym(object):
    __slots__ = ("z",)

    def __init__(self, z):
        self.z = z

    def __repr__(self):
        return "%s(%s)" % (type(self).__name__, self.z)


class SStr(Sym):
    __slots__ = ("z", "nonempty")

    def __init__(self, z, nonempty=False):
        self.z = z
        self.nonempty = nonempty       # known (by construction) to be a non-empty string


class SInt(Sym):
    pass


class SBool(Sym):
    pass


class SBytes(Sym):
    """bytes value, modelled as a z3 String whose characters are all < 256."""
    pass


class SRec(Sym):
    """Immutable record value identified by a symbolic integer id (e.g. a codec object): attribute
    `a` is the uninterpreted function <kind>_<a>(id); equality is equality of ids."""
    __slots__ = ("z", "kind", "attrs")

    def __init__(self, z, kind, attrs):
        self.z, self.kind, self.attrs = z, kind, attrs     # attrs: name -> "str" | "int" | "opaque"


class SStrList(Sym):
    """An immutable snapshot of a list of strings of symbolic length: z3 Seq(String)."""
    pass


_oid = [0]


def fresh_oid():
    _oid[0] += 1
    return _oid[0]


class Obj(object):
    """Instance of a (repo or abstract) class."""
    def __init__(self, cls, fields=None, name=None):
        self.cls = cls              # ClassInfo, or a string for abstract/library classes
        self.fields = dict(fields or {})
        self.oid = fresh_oid()
        self.name = name
        self.methods = {}           # abstract objects: name -> native callable(I, args, kwargs)

    def clsname(self):
        return self.cls if isinstance(self.cls, str) else self.cls.qualname

    def __repr__(self):
        return "<Obj %s#%d>" % (self.clsname(), self.oid)


class DictV(object):
    """dict with concrete keys; each entry has a presence condition (True or z3 Bool).
    `order` tracks insertion order of concrete keys.  `default` (optional) is a callable
    key -> (value, present) for symbolic-key reads of abstract maps."""
    def __init__(self, entries=None, cls="dict"):
        self.entries = {}
        if entries:
            for k, v in entries.items():
                self.entries[k] = [v, True]
        self.oid = fresh_oid()
        self.cls = cls
        self.abstract = None      # AbstractMap or None
        self.sym_items = None     # [[key, value]] with symbolic keys (pairwise distinct), in insertion order

    def __repr__(self):
        return "<DictV#%d %s>" % (self.oid, list(self.entries))


class ListV(object):
    """list/deque with a concrete number of items, optionally preceded by a symbolic prefix
    of strings (`prefix`, a z3 Seq(String)) for lists that grow inside loops."""
    def __init__(self, items=None, cls="list", prefix=None):
        self.items = list(items or [])
        self.oid = fresh_oid()
        self.cls = cls
        self.prefix = prefix
        self.view = None        # (base sequence, k): the prefix is the first k elements of base, 0 <= k <= len(base)

    def __repr__(self):
        return "<ListV#%d %r%s>" % (self.oid, self.items, "+prefix" if self.prefix is not None else "")


class SetV(object):
    def __init__(self, items=None):
        self.items = list(items or [])
        self.oid = fresh_oid()


class BoundMethod(object):
    def __init__(self, recv, fn):
        self.recv, self.fn = recv, fn

    def __repr__(self):
        return "<bound %s of %r>" % (self.fn, self.recv)


class BuiltinMethod(object):
    """Method of a built-in value (str.lower, list.append, ...)."""
    def __init__(self, recv, name):
        self.recv, self.name = recv, name

    def __repr__(self):
        return "<builtin-method %s of %r>" % (self.name, self.recv)


class NativeFn(object):
    def __init__(self, name, impl):
        self.name, self.impl = name, impl

    def __repr__(self):
        return "<native %s>" % self.name


class OpaqueFn(object):
    """Uninterpreted spec function."""
    def __init__(self, name, decl, argkinds, reskind):
        self.name, self.decl, self.argkinds, self.reskind = name, decl, argkinds, reskind


class Lambda(object):
    def __init__(self, node, frame):
        self.node, self.frame = node, frame


class Namespace(object):
    """`old` / `pre` namespaces in contract clauses."""
    def __init__(self, d):
        self.d = d


class TypeV(object):
    """A built-in type used as a value (str, int, dict, ...)."""
    def __init__(self, name):
        self.name = name

    def __repr__(self):
        return "<type %s>" % self.name


class ExcClass(object):
    def __init__(self, name):
        self.name = name

    def __repr__(self):
        return "<exc %s>" % self.name


class ExcValue(object):
    def __init__(self, name, args=()):
        self.name, self.args = name, args


def is_strlike(v):
    return isinstance(v, (str, SStr))


def is_intlike(v):
    return (isinstance(v, int) and not isinstance(v, bool)) or isinstance(v, SInt)


def is_boollike(v):
    return isinstance(v, (bool, SBool))


def zs(v):
    """z3 String term of a str-like value."""
    if isinstance(v, str):
        return z3.StringVal(v)
    if isinstance(v, SStr):
        return v.z
    raise TypeError("not a string value: %r" % (v,))


def zi(v):
    if isinstance(v, bool):
        return z3.IntVal(1 if v else 0)
    if isinstance(v, int):
        return z3.IntVal(v)
    if isinstance(v, SInt):
        return v.z
    if isinstance(v, SBool):
        return z3.If(v.z, z3.IntVal(1), z3.IntVal(0))
    raise TypeError("not an int value: %r" % (v,))


def zb(v):
    if isinstance(v, bool):
        return z3.BoolVal(v)
    if isinstance(v, SBool):
        return v.z
    raise TypeError("not a bool value: %r" % (v,))


def mk_str(z):
    z = z3.simplify(z)
    if z3.is_string_value(z):
        return z.as_string_py() if hasattr(z, "as_string_py") else _pystr(z)
    return SStr(z)


def _pystr(z):
    # z3's as_string() returns an escaped form (\u{..}); decode it.
    s = z.as_string()
    out = []
    i = 0
    while i < len(s):
        if s.startswith("\\u{", i):
            j = s.index("}", i)
            out.append(chr(int(s[i + 3:j], 16)))
            i = j + 1
        else:
            out.append(s[i])
            i += 1
    return "".join(out)


def mk_int(z):
    z = z3.simplify(z)
    if z3.is_int_value(z):
        return z.as_long()
    return SInt(z)


def mk_bool(z):
    if isinstance(z, bool):
        return z
    z = z3.simplify(z)
    if z3.is_true(z):
        return True
    if z3.is_false(z):
        return False
    return SBool(z)

"""Turn a solver model into concrete Python inputs (for native replay)."""
import z3

from .values import (Sym, SStr, SInt, SBool, SBytes, SStrList, Obj, DictV, ListV, SetV, BoundMethod, _pystr)
from .repo import ClassInfo, FunctionInfo
from . import contract as C


def zval(model, z):
    return model.eval(z, model_completion=True)


def seq_to_list(model, z):
    """z3 Seq(String) value -> python list of str (best effort)."""
    n = zval(model, z3.Length(z))
    n = n.as_long() if z3.is_int_value(n) else 0
    out = []
    for i in range(min(n, 64)):
        e = zval(model, z[i])
        out.append(_pystr(e) if z3.is_string_value(e) else "")
    return out


def conc(model, v, seen=None):
    seen = seen if seen is not None else {}
    if isinstance(v, SStr):
        r = zval(model, v.z)
        return _pystr(r) if z3.is_string_value(r) else "?"
    if isinstance(v, SBytes):
        r = zval(model, v.z)
        s = _pystr(r) if z3.is_string_value(r) else ""
        return bytes(ord(c) & 0xff for c in s)
    if isinstance(v, SInt):
        r = zval(model, v.z)
        return r.as_long() if z3.is_int_value(r) else 0
    if isinstance(v, SBool):
        return z3.is_true(zval(model, v.z))
    if isinstance(v, SStrList):
        return seq_to_list(model, v.z)
    if type(v).__name__ == "SRec":
        r = zval(model, v.z)
        return {"__rec__": v.kind, "id": r.as_long() if z3.is_int_value(r) else 0}
    if isinstance(v, tuple):
        return tuple(conc(model, x, seen) for x in v)
    if isinstance(v, frozenset):
        return v
    if isinstance(v, ListV):
        out = []
        if v.prefix is not None:
            if v.prefix.sort() == z3.StringSort():
                r = zval(model, v.prefix)
                out.extend(list(_pystr(r)) if z3.is_string_value(r) else [])
            elif v.prefix.sort() == z3.SeqSort(z3.StringSort()):
                out.extend(seq_to_list(model, v.prefix))
        out.extend(conc(model, x, seen) for x in v.items)
        return out
    if isinstance(v, SetV):
        return [conc(model, x, seen) for x in v.items]
    if isinstance(v, DictV):
        out = {}
        if v.abstract is not None:
            try:
                out.update(v.abstract.concretise(model, lambda x: conc(model, x, seen)))
            except Exception:
                pass
        for k, x in (v.sym_items or []):
            out[conc(model, k, seen)] = conc(model, x, seen)
        for k, (x, p) in v.entries.items():
            if p is True or z3.is_true(zval(model, p)):
                out[conc(model, k, seen) if isinstance(k, (Sym, tuple)) else k] = conc(model, x, seen)
        return out
    if isinstance(v, Obj):
        if v.oid in seen:
            return {"__ref__": v.oid}
        seen[v.oid] = True
        d = {"__class__": v.clsname(), "__oid__": v.oid}
        for k, x in v.fields.items():
            d[k] = conc(model, x, seen)
        return d
    if isinstance(v, BoundMethod):
        return {"__method__": v.fn.qualname.split(".")[-1]}
    if isinstance(v, (FunctionInfo, ClassInfo)):
        return {"__name__": v.qualname}
    if isinstance(v, dict):
        return dict(v)
    return v


def model_inputs(ctx, model):
    if model is None:
        return None
    tpl = getattr(ctx, "input_template", None)
    if tpl is None:
        return None
    out = {}
    for k, v in tpl.items():
        out[k] = C.enc(_jsonable(conc(model, v)))
    ghost = getattr(ctx, "ghost_template", None)
    if ghost:
        out["__ghost__"] = {k: C.enc(_jsonable(conc(model, v))) for k, v in ghost.items()}
    return out


def _jsonable(v):
    if isinstance(v, dict):
        return {(_k if isinstance(_k, (str, int, bool, tuple)) or _k is None else repr(_k)): _jsonable(x) for _k, x in v.items()}
    if isinstance(v, (list,)):
        return [_jsonable(x) for x in v]
    if isinstance(v, tuple):
        return tuple(_jsonable(x) for x in v)
    if isinstance(v, (str, int, bool, bytes, frozenset)) or v is None:
        return v
    return repr(v)

"""AbstractMap: a dict with symbolic string keys (arrays present: K->Bool, value: K->V).
Keys are strings, or pairs (namespace-or-None, local name) encoded as one string
("" + NUL + local for None, ns + NUL + local otherwise -- NUL cannot occur in either part)."""
import z3

from .values import SStr, SInt, SBool, mk_str, mk_bool, mk_int, zs, is_strlike
from .engine import OutOfReach, PyRaise

SEP = "\x00"


class KeyTypeMismatch(Exception):
    pass


class AbstractMap(object):
    def __init__(self, ctx, name, pair_keys=False):
        S = z3.StringSort()
        self.ctx = ctx
        self.name = name
        self.present = z3.Const(name + "_present", z3.ArraySort(S, z3.BoolSort()))
        self.value = z3.Const(name + "_value", z3.ArraySort(S, S))
        self.size = z3.Int(name + "_size")
        self.pair_keys = pair_keys
        ctx.assume(self.size >= 0)

    def copy(self):
        n = AbstractMap.__new__(AbstractMap)
        n.__dict__.update(self.__dict__)
        return n

    def key(self, I, k):
        if self.pair_keys:
            if not (isinstance(k, tuple) and len(k) == 2):
                raise KeyTypeMismatch()
            ns, local = k
            nz = z3.StringVal("") if ns is None else zs(ns)
            flag = z3.StringVal("N") if ns is None else z3.StringVal("S")
            return z3.Concat(flag, nz, z3.StringVal(SEP), zs(local))
        if not is_strlike(k):
            raise OutOfReach("string-keyed map read with %r" % (k,))
        return zs(k)

    def has(self, I, k):
        try:
            return z3.Select(self.present, self.key(I, k))
        except KeyTypeMismatch:
            return False          # a str is never equal to a (namespace, name) pair

    def nonempty(self, I):
        return self.size > 0

    def length(self, I):
        return mk_int(self.size)

    def get(self, I, k, node=None):
        kz = self.key(I, k)
        if not I.ctx.branch(z3.Select(self.present, kz)):
            raise PyRaise("KeyError", "key not in map", site=node)
        return mk_str(z3.Select(self.value, kz))

    def get_default(self, I, k, default):
        kz = self.key(I, k)
        if I.ctx.branch(z3.Select(self.present, kz)):
            return mk_str(z3.Select(self.value, kz))
        return default

    def set(self, I, k, v):
        kz = self.key(I, k)
        was = z3.Select(self.present, kz)
        self.size = z3.If(was, self.size, self.size + 1)
        self.present = z3.Store(self.present, kz, z3.BoolVal(True))
        self.value = z3.Store(self.value, kz, zs(v))

    def delete(self, I, k, node=None):
        kz = self.key(I, k)
        if not I.ctx.branch(z3.Select(self.present, kz)):
            raise PyRaise("KeyError", "key not in map", site=node)
        self.size = self.size - 1
        self.present = z3.Store(self.present, kz, z3.BoolVal(False))

    def assume_forall(self, cond):
        """cond(kz, vz) -> z3 Bool: assumed for every present entry"""
        k = z3.String(self.name + "_k")
        self.ctx.assume(z3.ForAll([k], z3.Implies(z3.Select(self.present, k), cond(k, z3.Select(self.value, k)))))

    def concretise(self, model, conc):
        return {}

"""Native replay of a counterexample on the real code.  Runs under /venv/bin/python with
PYTHONPATH=/verif:$H5V_REPO.   usage: python -m pyvc.replay_native <replay.json>

exit 1: the real code violates the clause on these inputs (violation confirmed)
exit 0: not reproduced
exit 3: harness error
"""
import copy
import importlib
import inspect
import json
import sys
import traceback


def find_holder(sidecar, name):
    mod = importlib.import_module(sidecar)
    return mod, getattr(mod, name)


def call_by_name(fn, env):
    params = list(inspect.signature(fn).parameters)
    return fn(**{p: env[p] for p in params if p in env})


def replay(doc):
    from pyvc import contract as C
    mod, holder = find_holder(doc["sidecar"], doc["contract"])
    con = holder._contract
    inputs = {k: C.dec(v) for k, v in (doc.get("inputs") or {}).items() if k != "__ghost__"}
    ghost = {k: C.dec(v) for k, v in ((doc.get("inputs") or {}).get("__ghost__") or {}).items()}
    out = {"observed": None, "raised": None, "clause_value": None, "confirmed": False}
    if "/step:" in (doc.get("obligation") or ""):
        # a loop-body (step) obligation: the side-car may know how to drive the real loop into the solver's state
        sr = getattr(holder, "step_replay", None)
        if sr is None:
            out["note"] = "loop/call-site obligation: no native replay"
            return out, 0
        sr = sr.__func__ if isinstance(sr, staticmethod) else sr
        clause = None
        for spec in con.loops.values():
            for cl in spec.step:
                if cl.name == doc["clause"]:
                    clause = cl
        res = sr(inputs, ghost, clause)
        if res is None:
            out["note"] = "loop/call-site obligation: the solver's loop state is not reachable through the public function"
            return out, 0
        out.update(res)
        return out, 1 if out.get("confirmed") else 0
    if con.call is None:
        out["error"] = "contract has no native call()"
        return out, 3
    env = dict(inputs)
    env.update(ghost)
    try:
        old = C.Old(copy.deepcopy(env))
    except Exception:
        old = C.Old(dict(env))
    try:
        result = con.call(env)
        out["observed"] = repr(result)[:2000]
    except Exception as e:
        out["raised"] = "%s: %s" % (type(e).__name__, e)
        out["traceback"] = traceback.format_exc()[-1500:]
        result = None
        allowed = con.raises.get(type(e).__name__) if doc.get("kind") != "safety" else None
        if allowed is not None and doc.get("clause") == "allowed-when":
            env["old"] = env["old"] if isinstance(env.get("old"), C.Old) else old
            ok = True if allowed is True else bool(call_by_name(allowed, env))
            out["clause_value"] = ok
            out["confirmed"] = not ok
            return out, 1 if not ok else 0
        if doc.get("kind") == "safety":
            want = doc.get("exception")
            out["confirmed"] = (want is None) or any(c.__name__ == want for c in type(e).__mro__)
            return out, 1 if out["confirmed"] else 0
        # a clause violation was predicted but the call raised: also a violation of totality,
        # but not the one claimed; report as not reproduced with the exception attached.
        return out, 0
    if doc.get("kind") == "safety":
        return out, 0
    clause = None
    for cl in con.ensures:
        if cl.name == doc["clause"]:
            clause = cl
    if clause is None:
        for spec in con.loops.values():
            for cl in spec.step:
                if cl.name == doc["clause"]:
                    clause = cl
    if clause is None:
        out["error"] = "clause %s not found" % doc["clause"]
        return out, 3
    env["old"] = env["old"] if isinstance(env.get("old"), C.Old) else old     # call() may supply a lifted pre-state
    env["result"] = result
    for r in con.requires:
        try:
            if not call_by_name(r.fn, env):
                out["note"] = "precondition %s false on these inputs" % r.name
                return out, 0
        except Exception as e:
            out["note"] = "precondition %s raised %r" % (r.name, e)
            return out, 0
    try:
        v = call_by_name(clause.fn, env)
    except Exception as e:
        out["error"] = "clause raised %s: %s" % (type(e).__name__, e)
        out["traceback"] = traceback.format_exc()[-1500:]
        return out, 3
    out["clause_value"] = bool(v)
    out["confirmed"] = not bool(v)
    return out, 1 if out["confirmed"] else 0


def search(doc, limit_s=60):
    """The solver's model did not replay (it may rely on an abstraction, e.g. an arbitrary table):
    look for a real failing input among the contract's own candidate generator."""
    import time
    from pyvc import contract as C
    mod, holder = find_holder(doc["sidecar"], doc["contract"])
    gen = getattr(holder, "candidates", None)
    if gen is None:
        return {"searched": 0}, 0
    gen = gen.__func__ if isinstance(gen, staticmethod) else gen
    t0 = time.time()
    n = 0
    for cand in gen():
        n += 1
        d = dict(doc)
        d["inputs"] = {k: C.enc(v) for k, v in cand.items()}
        try:
            out, code = replay(d)
        except Exception:
            continue
        if code == 1:
            out["searched"] = n
            out["found_input"] = d["inputs"]
            return out, 1
        if time.time() - t0 > limit_s:
            break
    return {"searched": n}, 0


def sweep(sidecar, name, prop, limit_s=600):
    """evaluate every ensures clause (serving prop) on every candidate input"""
    import time
    from pyvc import contract as C
    mod, holder = find_holder(sidecar, name)
    con = holder._contract
    gen = holder.candidates
    gen = gen.__func__ if isinstance(gen, staticmethod) else gen
    res = {}
    t0 = time.time()
    for cand in gen():
        for cl in con.ensures:
            if cl.props and prop not in cl.props and prop not in con.props:
                continue
            doc = {"sidecar": sidecar, "contract": name, "clause": cl.name, "kind": "ensures",
                   "inputs": {k: C.enc(v) for k, v in cand.items()}}
            r = res.setdefault(cl.name, {"cases": 0, "failed": []})
            try:
                out, code = replay(doc)
            except Exception:
                continue
            r["cases"] += 1
            if code == 1:
                r["failed"].append(doc["inputs"])
        if time.time() - t0 > limit_s:
            break
    return res


def main(argv):
    if argv[1] == "--sweep":
        json.dump(sweep(argv[2], argv[3], argv[4]), sys.stdout, default=str)
        sys.stdout.write("\n")
        return 0
    if argv[1] == "--search":
        with open(argv[2]) as fh:
            doc = json.load(fh)
        try:
            out, code = search(doc)
        except Exception:
            out, code = {"error": traceback.format_exc()[-3000:]}, 3
        json.dump(out, sys.stdout)
        sys.stdout.write("\n")
        return code
    with open(argv[1]) as fh:
        doc = json.load(fh)
    try:
        out, code = replay(doc)
    except Exception:
        out, code = {"error": traceback.format_exc()[-3000:]}, 3
    json.dump(out, sys.stdout)
    sys.stdout.write("\n")
    return code


if __name__ == "__main__":
    sys.exit(main(sys.argv))

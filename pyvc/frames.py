"""Frame obligations for long-lived objects (C12): "what one call writes, the next call re-initialises".

The contract (contracts/frames.py) names, for an owner class, the functions every public call runs before any other
work (`reinit`), how access paths in the methods of the participating classes resolve to owners, and the functions
whose bodies run during a call.  From the real AST, on every run:

  W(owner)  = fields assigned, deleted, item-assigned or mutated through a mutator method in any participating method
              (over-approximation: every syntactic write counts, reachable or not)
  R(owner)  = fields assigned on EVERY path through the reinit functions (must-assignment), with a right-hand side
              that cannot carry the previous call's state (constant, fresh display, constructor call, parameter,
              configuration field)

obligations (kind "frame", decided syntactically -- no solver):
  <owner>/frame:<field>            field in W(owner)  ==>  field in R(owner), or owner is itself re-created in R
  <owner>/reinit-fresh:<field>     the right-hand side classification above
  <owner>/reinit-called:<fn>       a reinit function of a sub-object is called unconditionally from the owner's reinit
  process-wide/<module>.<name>     every module-level mutable object written from inside a function is on the
                                   reviewed list of memo tables (value is a function of the key)

What this does NOT decide: writes through aliases the resolver cannot see (a long-lived object bound to a local and
passed to a helper), state in C extensions (expat, minidom internals), threads.  These are listed as assumptions."""
import ast
import os

from . import repo

MUTATORS = {"append", "extend", "insert", "pop", "remove", "clear", "update", "setdefault", "popitem", "add",
            "discard", "sort", "reverse", "appendleft", "popleft", "__setitem__", "__delitem__"}


class Write(object):
    def __init__(self, owner, field, how, where):
        self.owner, self.field, self.how, self.where = owner, field, how, where


def class_methods(mod, cls_name):
    """FunctionDef nodes of a class (searching nested definitions too), by name"""
    tree = repo.module_ast(mod)
    for node in ast.walk(tree):
        if isinstance(node, ast.ClassDef) and node.name == cls_name:
            return node, {n.name: n for n in node.body if isinstance(n, ast.FunctionDef)}
    raise KeyError("%s.%s" % (mod, cls_name))


def all_classes(mod):
    tree = repo.module_ast(mod)
    return [n for n in ast.walk(tree) if isinstance(n, ast.ClassDef)]


def path_of(node):
    """('self','parser','phase') for self.parser.phase; subscripts/calls are transparent: self.phases["x"] -> (...,'phases','[]')"""
    if isinstance(node, ast.Name):
        return (node.id,)
    if isinstance(node, ast.Attribute):
        p = path_of(node.value)
        return None if p is None else p + (node.attr,)
    if isinstance(node, ast.Subscript):
        p = path_of(node.value)
        return None if p is None else p + ("[]",)
    return None


def resolve(path, rules, aliases):
    """longest-prefix resolution of an access path to an owner name; returns (owner, rest)"""
    if path is None:
        return None, None
    if path[0] in aliases:
        path = aliases[path[0]] + path[1:]
    best = None
    for pre, owner in rules:
        if path[:len(pre)] == pre and (best is None or len(pre) > len(best[0])):
            best = (pre, owner)
    if best is None:
        return None, None
    return best[1], path[len(best[0]):]


def writes_in(fn, rules, where):
    out = []
    aliases = {}
    for node in ast.walk(fn):
        if isinstance(node, ast.Assign) and len(node.targets) == 1 and isinstance(node.targets[0], ast.Name):
            p = path_of(node.value)
            o, rest = resolve(p, rules, {})
            if o is not None and rest == ():
                aliases[node.targets[0].id] = p

    def target(t, how):
        if isinstance(t, (ast.Tuple, ast.List)):
            for e in t.elts:
                target(e, how)
            return
        if isinstance(t, ast.Starred):
            return target(t.value, how)
        if isinstance(t, ast.Attribute):
            o, rest = resolve(path_of(t.value), rules, aliases)
            if o is not None and rest == ():
                out.append(Write(o, t.attr, how, "%s:%d" % (where, t.lineno)))
            elif o is not None and rest and all(r == "[]" for r in rest[1:]):
                # write into an object stored in a field: self.x.y = ... mutates what self.x holds
                out.append(Write(o, rest[0], "mutate", "%s:%d" % (where, t.lineno)))
        elif isinstance(t, ast.Subscript):
            p = path_of(t.value)
            o, rest = resolve(p, rules, aliases)
            if o is not None and rest and rest[0] != "[]":
                out.append(Write(o, rest[0], "mutate", "%s:%d" % (where, t.lineno)))

    for node in ast.walk(fn):
        if isinstance(node, ast.Assign):
            for t in node.targets:
                target(t, "assign")
        elif isinstance(node, (ast.AugAssign, ast.AnnAssign)):
            target(node.target, "assign")
        elif isinstance(node, ast.Delete):
            for t in node.targets:
                target(t, "assign")
        elif isinstance(node, (ast.For, ast.comprehension)):
            target(node.target, "assign")
        elif isinstance(node, ast.With):
            for it in node.items:
                if it.optional_vars is not None:
                    target(it.optional_vars, "assign")
        elif isinstance(node, ast.Call) and isinstance(node.func, ast.Attribute) and node.func.attr in MUTATORS:
            p = path_of(node.func.value)
            o, rest = resolve(p, rules, aliases)
            if o is not None and rest and rest[0] != "[]":
                out.append(Write(o, rest[0], "mutate", "%s:%d" % (where, node.lineno)))
        elif isinstance(node, ast.Call) and isinstance(node.func, ast.Name) and node.func.id in ("setattr", "delattr") and node.args:
            o, rest = resolve(path_of(node.args[0]), rules, aliases)
            if o is not None and rest == ():
                f = node.args[1].value if len(node.args) > 1 and isinstance(node.args[1], ast.Constant) else "*"
                out.append(Write(o, f, "assign", "%s:%d" % (where, node.lineno)))
    return out


def must_assign(stmts, self_rules, stop=None):
    """fields of the owner (paths resolving to it with rest == ()) assigned on every path through stmts, in order, as
    {field: rhs node}; stops at the first statement for which stop(stmt) holds.  returns (dict, stopped)"""
    got = {}
    for st in stmts:
        if stop is not None and stop(st):
            return got, True
        if isinstance(st, ast.Assign):
            for t in st.targets:
                if isinstance(t, ast.Attribute):
                    o, rest = resolve(path_of(t.value), self_rules, {})
                    if o is not None and rest == ():
                        got[t.attr] = st.value
        elif isinstance(st, ast.If):
            a, sa = must_assign(st.body, self_rules, stop)
            b, sb = must_assign(st.orelse, self_rules, stop)
            for k in a:
                if k in b:
                    got[k] = ("either", a[k], b[k])
            if sa or sb:
                return got, True
        elif isinstance(st, (ast.Return, ast.Raise)):
            return got, True
        elif isinstance(st, ast.Try):
            a, sa = must_assign(st.body, self_rules, stop)
            if not st.handlers:
                got.update(a)
            f, _ = must_assign(st.finalbody, self_rules, stop)
            got.update(f)
            if sa:
                return got, True
    return got, False


def classify_rhs(node, params, config):
    """can this value carry state of an earlier call?  returns (ok, description)"""
    if isinstance(node, tuple) and node[0] == "either":
        a, b = classify_rhs(node[1], params, config), classify_rhs(node[2], params, config)
        return a[0] and b[0], "%s | %s" % (a[1], b[1])
    if isinstance(node, ast.Constant):
        return True, "constant %r" % (node.value,)
    if isinstance(node, (ast.List, ast.Dict, ast.Set, ast.Tuple)):
        elts = node.elts if not isinstance(node, ast.Dict) else list(node.keys) + list(node.values)
        sub = [classify_rhs(e, params, config) for e in elts if e is not None]
        return all(s[0] for s in sub), "fresh display"
    if isinstance(node, (ast.DictComp, ast.ListComp, ast.SetComp)):
        return True, "fresh comprehension"
    if isinstance(node, ast.Name):
        return (node.id in params), ("parameter %s" % node.id if node.id in params else "name %s" % node.id)
    if isinstance(node, ast.Call):
        f = node.func
        label = ast.unparse(f)
        args_ok = all(classify_rhs(a, params, config)[0] for a in node.args) and \
            all(classify_rhs(k.value, params, config)[0] for k in node.keywords)
        return args_ok, "call %s(...) on fresh/constant arguments" % label if args_ok else "call %s with stateful argument" % label
    if isinstance(node, (ast.Attribute, ast.Subscript)):
        p = path_of(node)
        if p and p[0] == "self" and len(p) >= 2 and p[1] in config:
            return True, "configuration field %s" % ".".join(x for x in p if x != "[]")
        return False, "field %s" % (".".join(p) if p else ast.unparse(node))
    if isinstance(node, ast.BoolOp) or isinstance(node, ast.Compare) or isinstance(node, ast.UnaryOp) or isinstance(node, ast.BinOp):
        subs = [classify_rhs(c, params, config) for c in ast.iter_child_nodes(node) if isinstance(c, ast.expr)]
        return all(s[0] for s in subs), "expression over " + ", ".join(s[1] for s in subs)
    if isinstance(node, ast.IfExp):
        subs = [classify_rhs(c, params, config) for c in (node.test, node.body, node.orelse)]
        return all(s[0] for s in subs), "conditional"
    return False, ast.unparse(node)[:60]


def module_state_writes(pkg_modules):
    """(module, name, where) for every write, from inside a function, to a module-level name or its items"""
    out = []
    for mod in pkg_modules:
        tree = repo.module_ast(mod)
        top = set()
        for st in tree.body:
            for n in ast.walk(st) if isinstance(st, (ast.Assign, ast.AnnAssign, ast.AugAssign, ast.For, ast.If, ast.Try, ast.With)) else []:
                if isinstance(n, ast.Name) and isinstance(n.ctx, ast.Store):
                    top.add(n.id)

        def scan(fn, qual):
            params = {a.arg for a in fn.args.args + fn.args.kwonlyargs + fn.args.posonlyargs}
            if fn.args.vararg:
                params.add(fn.args.vararg.arg)
            if fn.args.kwarg:
                params.add(fn.args.kwarg.arg)
            local = set(params)
            globs = set()
            for n in ast.walk(fn):
                if isinstance(n, ast.Global):
                    globs |= set(n.names)
                if isinstance(n, ast.Name) and isinstance(n.ctx, ast.Store):
                    local.add(n.id)
            local -= globs
            for n in ast.walk(fn):
                tgt = None
                if isinstance(n, ast.Name) and isinstance(n.ctx, ast.Store) and n.id in globs:
                    out.append((mod, n.id, "%s:%d rebinding" % (qual, n.lineno)))
                if isinstance(n, (ast.Assign, ast.AugAssign, ast.Delete)):
                    tg = n.targets if not isinstance(n, ast.AugAssign) else [n.target]
                    for t in tg:
                        if isinstance(t, (ast.Subscript, ast.Attribute)):
                            tgt = t.value
                            while isinstance(tgt, (ast.Subscript, ast.Attribute)):
                                tgt = tgt.value
                            if isinstance(tgt, ast.Name) and tgt.id in top and tgt.id not in local:
                                out.append((mod, tgt.id, "%s:%d item/attribute store" % (qual, n.lineno)))
                if isinstance(n, ast.Call) and isinstance(n.func, ast.Attribute) and n.func.attr in MUTATORS:
                    b = n.func.value
                    if isinstance(b, ast.Name) and b.id in top and b.id not in local:
                        out.append((mod, b.id, "%s:%d .%s()" % (qual, n.lineno, n.func.attr)))

        def walk(node, qual):
            for ch in ast.iter_child_nodes(node):
                if isinstance(ch, (ast.FunctionDef, ast.AsyncFunctionDef)):
                    scan(ch, qual + "." + ch.name)
                elif isinstance(ch, ast.ClassDef):
                    walk(ch, qual + "." + ch.name)
        walk(tree, mod)
    return out


# ------------------------------------------------------------------------------------------------ runner

def _mro_methods(mod, cls_name):
    """methods of the class and (by name) of its bases defined in the repo, most-derived first"""
    node, meths = class_methods(mod, cls_name)
    return node, meths


def _fn_params(fn):
    ps = {a.arg for a in fn.args.args + fn.args.kwonlyargs + fn.args.posonlyargs}
    if fn.args.vararg:
        ps.add(fn.args.vararg.arg)
    if fn.args.kwarg:
        ps.add(fn.args.kwarg.arg)
    return ps


def _properties(cnode):
    """{name: setter function name} for `name = property(getter, setter)` in the class body"""
    out = {}
    for st in cnode.body:
        if isinstance(st, ast.Assign) and isinstance(st.value, ast.Call) and isinstance(st.value.func, ast.Name) \
                and st.value.func.id == "property" and len(st.value.args) >= 2 and isinstance(st.value.args[1], ast.Name):
            for t in st.targets:
                if isinstance(t, ast.Name):
                    out[t.id] = st.value.args[1].id
    return out


def reinit_set(mod, cls_name, fnames, stop_at_call, self_rules):
    """must-assigned fields over the listed functions; own-method calls and property setters are expanded one level"""
    cnode, meths = class_methods(mod, cls_name)
    props = _properties(cnode)
    got = {}
    params = set()
    calls = []

    def is_stop(st):
        if stop_at_call is None:
            return False
        for n in ast.walk(st):
            if isinstance(n, ast.Call) and isinstance(n.func, ast.Attribute) and n.func.attr == stop_at_call \
                    and isinstance(n.func.value, ast.Name) and n.func.value.id == "self":
                return True
        return False

    def top_calls(stmts):
        for st in stmts:
            if is_stop(st):
                return
            if isinstance(st, (ast.If, ast.For, ast.While, ast.Try, ast.With)):
                continue
            for n in ast.walk(st):
                if isinstance(n, ast.Call):
                    calls.append(ast.unparse(n.func))

    for fname in fnames:
        fn = meths[fname]
        params |= _fn_params(fn)
        a, _ = must_assign(fn.body, self_rules, is_stop)
        got.update(a)
        top_calls(fn.body)
    # expansions
    for f, rhs in list(got.items()):
        if f in props and props[f] in meths:
            a, _ = must_assign(meths[props[f]].body, self_rules)
            for k, v in a.items():
                got.setdefault(k, ast.Constant(value="<set by the %s property setter>" % f))
        if isinstance(rhs, ast.Call) and isinstance(rhs.func, ast.Attribute) and isinstance(rhs.func.value, ast.Name) \
                and rhs.func.value.id == "self":
            # self.f = self.m(): fields m assigns on every path are re-initialised too (looked up in every class of that name)
            for m2, c2, _r in _SPEC.PARTICIPANTS:
                for c in all_classes(m2):
                    if c2(c.name) and c.name == cls_name:
                        for fn2 in c.body:
                            if isinstance(fn2, ast.FunctionDef) and fn2.name == rhs.func.attr:
                                a, _ = must_assign(fn2.body, self_rules)
                                for k, v in a.items():
                                    got.setdefault(k, v)
    return got, params, calls


_SPEC = None


def run(prop):
    """returns a list of result records shaped like runner.run_task's"""
    global _SPEC
    import importlib
    _SPEC = importlib.import_module("spec.frames")
    out = []
    if prop == "C12":
        out += run_c12()
    st = [x for x in _SPEC.STATELESS if prop in x[2]]
    if st:
        out += run_stateless(prop, st)
    return out


def run_stateless(prop, entries):
    import hashlib
    import time
    t0 = time.time()
    obs = []
    shas = []
    for entry in entries:
        mod, cname = entry[0], entry[1]
        allowed = set(entry[3]) if len(entry) > 3 else set()
        cnode, meths = class_methods(mod, cname)
        shas.append(hashlib.sha256(ast.unparse(cnode).encode()).hexdigest()[:16])
        ws = []
        for name, fn in sorted(meths.items()):
            if name == "__init__":
                continue
            ws += [w for w in writes_in(fn, [(("self",), "self")], "%s.%s.%s" % (mod, cname, name)) if w.field not in allowed]
        obs.append({"id": "%s.%s/frame:writes-no-field-of-self" % (mod, cname), "kind": "frame",
                    "verdict": "proved" if not ws else "failed", "ms": 0.0, "solver": "syntactic",
                    "detail": ("no method other than __init__ assigns or mutates a field of self%s (%d methods)" % (
                        (" other than " + ", ".join(sorted(allowed))) if allowed else "", len(meths) - (1 if "__init__" in meths else 0)))
                    if not ws else "state carried from one token to the next: " + "; ".join("%s (%s at %s)" % (w.field, w.how, w.where) for w in ws[:6]),
                    "model": None, "path": 0, "tags": [prop]})
    return [{"task": ["spec.frames", "stateless", 0], "target": "stateless(%s)" % prop, "obligations": obs, "paths": 1,
             "completed_paths": 1, "error": None, "out_of_reach": [], "inlined": [], "assumed": [], "notes": [],
             "solver_ms": 0, "queries": 0, "wall_s": round(time.time() - t0, 2),
             "function": {"name": "statelessness of " + ", ".join("%s.%s" % (e[0], e[1]) for e in entries),
                          "file": entries[0][0].replace(".", "/") + ".py", "lines": [1, 1],
                          "sha256": hashlib.sha256(repr(shas).encode()).hexdigest()[:16], "contract": "spec.frames.STATELESS", "case": None}}]


def run_c12():
    import time
    import hashlib
    SP = _SPEC
    t0 = time.time()
    obs = []
    functions = {}

    def ob(oid, ok, detail, where=None):
        obs.append({"id": oid, "kind": "frame", "verdict": "proved" if ok else "failed", "ms": 0.0, "solver": "syntactic",
                    "detail": detail, "model": None, "path": 0, "tags": ["C12"], "where": where})

    # ---- write sets
    W = []
    for mod, pred, rules in SP.PARTICIPANTS:
        for c in all_classes(mod):
            if not pred(c.name):
                continue
            for fn in c.body:
                if isinstance(fn, ast.FunctionDef) and fn.name != "__init__":
                    W += writes_in(fn, rules, "%s.%s.%s" % (mod, c.name, fn.name))
    by = {}
    for w in W:
        by.setdefault((w.owner, w.field), []).append(w)

    # ---- reinit sets
    R = {}
    for owner, sp in SP.OWNERS.items():
        if "cls" not in sp:
            continue
        mod, cname = sp["cls"]
        rules = [r for r in (SP.PARSER_RULES if owner == "Parser" else SP.TREE_RULES if owner == "Tree" else SP.SER_RULES) if r[1] == owner and r[0] == ("self",)]
        got, params, calls = reinit_set(mod, cname, sp["reinit"], sp.get("stop_at_call"), rules)
        R[owner] = (got, params, calls)
        cnode, meths = class_methods(mod, cname)
        for fname in sp["reinit"]:
            src = ast.unparse(meths[fname])
            functions["%s.%s.%s" % (mod, cname, fname)] = hashlib.sha256(src.encode()).hexdigest()[:16]
        # every public entry goes through the reinit function first
        for entry, via in sp.get("entries", {}).items():
            fn = meths[entry]
            first_calls = [ast.unparse(n.func) for st in fn.body for n in ast.walk(st) if isinstance(n, ast.Call)]
            ok = ("self." + via) in first_calls
            ob("%s/reinit-on-entry:%s" % (owner, entry), ok,
               "%s calls self.%s, which re-initialises the object before any other work" % (entry, via))
        for f, rhs in sorted(got.items(), key=lambda kv: kv[0]):
            ok, desc = classify_rhs(rhs, params | {"self"}, set(sp.get("config", [])))
            ob("%s/reinit-fresh:%s" % (owner, f), ok, "re-initialised from: " + desc)
        for subowner, call in sp.get("sub", []):
            ob("%s/reinit-called:%s" % (owner, call), call in calls, "%s is called unconditionally during re-initialisation" % call)

    # ---- frame obligations
    for (owner, field), ws in sorted(by.items()):
        sp = SP.OWNERS.get(owner)
        where = [w.where for w in ws][:6]
        if sp is None:
            ob("%s/frame:%s" % (owner, field), False, "write to an owner without a frame contract", where)
            continue
        if "fresh_in" in sp:
            o2, f2 = sp["fresh_in"]
            got = R[o2][0]
            ok = f2 in got and classify_rhs(got[f2], R[o2][1] | {"self"}, set(SP.OWNERS[o2].get("config", [])))[0]
            ob("%s/frame:%s" % (owner, field), ok,
               "written at %s; the %s object is created anew by %s.%s at the start of every call" % (", ".join(where[:3]), owner, o2, f2), where)
            continue
        got = R[owner][0]
        if field in got:
            ob("%s/frame:%s" % (owner, field), True, "written at %s; re-initialised on every path through %s" % (
                ", ".join(where[:3]), "+".join(sp["reinit"])), where)
            continue
        proto = SP.PROTOCOLS.get((owner, field))
        if proto is not None:
            ok, why = check_protocol(SP, owner, field, proto)
            ob("%s/frame:%s" % (owner, field), ok, "not re-initialised; write-before-read protocol: " + why, where)
            continue
        if field in sp.get("config", []):
            ob("%s/frame:%s" % (owner, field), False, "configuration field written during a call at " + ", ".join(where[:3]), where)
            continue
        ob("%s/frame:%s" % (owner, field), False,
           "written at %s but not assigned on every path through %s: its value survives into the next call" % (
               ", ".join(where[:3]), "+".join(sp["reinit"])), where)

    # ---- process-wide state
    seen = set()
    for mod, name, where in module_state_writes(SP.PACKAGE) + closure_state_writes(SP.PACKAGE):
        key = (mod, name)
        if key in seen:
            continue
        seen.add(key)
        holder = SP.MEMO.get(key)
        if holder is None:
            ob("process-wide/%s.%s" % key, False, "module-level mutable state written from %s is not a reviewed memo table" % where, [where])
            continue
        ok, why = check_memo(holder, name)
        ob("process-wide/%s.%s" % key, ok, "memo table: " + why, [where])
    for name, sp in SP.SHARED_OBJECTS.items():
        called = set()
        for m in sp["callers"]:
            for n in ast.walk(repo.module_ast(m)):
                if isinstance(n, ast.Call) and isinstance(n.func, ast.Attribute) and isinstance(n.func.value, ast.Name) \
                        and n.func.value.id == name:
                    called.add(n.func.attr)
        # transitive closure over self.method() calls inside the classes
        meths = {}
        for mod, cname in sp["cls"]:
            _, ms = class_methods(mod, cname)
            for k, v in ms.items():
                meths.setdefault(k, [v])          # classes are listed most-derived first: first definition wins
        todo = list(called)
        while todo:
            m = todo.pop()
            for fn in meths.get(m, []):
                for n in ast.walk(fn):
                    if isinstance(n, ast.Call) and isinstance(n.func, ast.Attribute) and isinstance(n.func.value, ast.Name) \
                            and n.func.value.id == "self" and n.func.attr not in called:
                        called.add(n.func.attr)
                        todo.append(n.func.attr)
        bad = []
        for m in sorted(called):
            for fn in meths.get(m, []):
                for w in writes_in(fn, [(("self",), name)], m):
                    bad.append("%s.%s (%s)" % (m, w.field, w.where))
        ob("process-wide/%s" % name, not bad,
           "methods reached from %s on the shared %s (%s) write none of its fields" % (", ".join(sp["callers"]), name, ", ".join(sorted(called)))
           if not bad else "shared object written during a parse: " + "; ".join(bad))

    res = {"task": ["spec.frames", "frames", 0], "target": "frames(C12)", "obligations": obs, "paths": 1, "completed_paths": 1,
           "error": None, "out_of_reach": [], "inlined": [], "assumed": [
               "frame analysis: writes through aliases of long-lived objects held in locals or passed to helpers are not tracked",
               "frame analysis: objects stored into re-initialised fields after re-initialisation are created during the call (per-document ownership)",
               "process-wide memo tables: dict get/set are atomic under the GIL; thread interleavings are otherwise not decided"],
           "notes": [], "solver_ms": 0, "queries": 0, "wall_s": round(time.time() - t0, 2),
           "function": {"name": "frame contract over %d classes" % sum(1 for m, p, r in SP.PARTICIPANTS for c in all_classes(m) if p(c.name)),
                        "file": "html5lib/html5parser.py", "lines": [1, 1], "sha256": hashlib.sha256(repr(sorted(functions.items())).encode()).hexdigest()[:16],
                        "contract": "spec.frames", "case": None}}
    return [res]


def check_protocol(SP, owner, field, proto):
    """every read of <owner>.<field> is inside the reader classes, and every statement that enters the readers' mode
    (assignment of phases[<mode_key>] to <mode_field>) directly follows an assignment of the field in the same block"""
    reads_outside = []
    entries = []
    bad_entries = []
    for mod, pred, rules in SP.PARTICIPANTS:
        for c in all_classes(mod):
            if not pred(c.name):
                continue
            for fn in [f for f in c.body if isinstance(f, ast.FunctionDef)]:
                for n in ast.walk(fn):
                    if isinstance(n, ast.Attribute) and n.attr == field and isinstance(n.ctx, ast.Load):
                        o, rest = resolve(path_of(n.value), rules, {})
                        if o == owner and rest == () and c.name not in proto["readers"]:
                            reads_outside.append("%s.%s:%d" % (c.name, fn.name, n.lineno))
                for blk in ast.walk(fn):
                    for attr in ("body", "orelse", "finalbody"):
                        stmts = getattr(blk, attr, None)
                        if not isinstance(stmts, list):
                            continue
                        for i, st in enumerate(stmts):
                            if not (isinstance(st, ast.Assign) and len(st.targets) == 1 and isinstance(st.targets[0], ast.Attribute)):
                                continue
                            t = st.targets[0]
                            o, rest = resolve(path_of(t.value), rules, {})
                            if o != owner or rest != () or t.attr != proto["mode_field"]:
                                continue
                            v = st.value
                            if isinstance(v, ast.Subscript) and isinstance(v.slice, ast.Constant) and v.slice.value == proto["mode_key"]:
                                entries.append("%s.%s:%d" % (c.name, fn.name, st.lineno))
                                prev = stmts[i - 1] if i > 0 else None
                                okp = False
                                if isinstance(prev, ast.Assign) and isinstance(prev.targets[0], ast.Attribute) and prev.targets[0].attr == field:
                                    o2, r2 = resolve(path_of(prev.targets[0].value), rules, {})
                                    okp = o2 == owner and r2 == ()
                                if not okp:
                                    bad_entries.append(entries[-1])
    ok = not reads_outside and not bad_entries and bool(entries)
    why = "read only in %s; mode %r entered at %s, each right after assigning %s" % (
        "/".join(proto["readers"]), proto["mode_key"], ", ".join(entries), field)
    if reads_outside:
        why = "read outside the protocol's readers at " + ", ".join(reads_outside)
    elif bad_entries:
        why = "mode entered without assigning %s first at %s" % (field, ", ".join(bad_entries))
    return ok, why


def closure_state_writes(pkg_modules):
    """writes from a nested function to a mutable bound in its enclosing function (closure caches)"""
    out = []
    for mod in pkg_modules:
        tree = repo.module_ast(mod)
        for outer in [n for n in ast.walk(tree) if isinstance(n, ast.FunctionDef)]:
            outer_locals = {n.id for st in outer.body if not isinstance(st, (ast.FunctionDef, ast.ClassDef))
                            for n in ast.walk(st) if isinstance(n, ast.Name) and isinstance(n.ctx, ast.Store)}
            returned = {n.value.id for st in outer.body for n in ast.walk(st)
                        if isinstance(n, ast.Return) and isinstance(n.value, ast.Name)}
            for inner in [n for n in outer.body if isinstance(n, ast.FunctionDef) and n.name in returned]:
                inner_locals = {n.id for n in ast.walk(inner) if isinstance(n, ast.Name) and isinstance(n.ctx, ast.Store)} | _fn_params(inner)
                for n in ast.walk(inner):
                    base = None
                    if isinstance(n, (ast.Assign, ast.AugAssign, ast.Delete)):
                        tg = n.targets if not isinstance(n, ast.AugAssign) else [n.target]
                        for t in tg:
                            if isinstance(t, ast.Subscript):
                                b = t.value
                                while isinstance(b, ast.Subscript):
                                    b = b.value
                                if isinstance(b, ast.Name):
                                    base = b.id
                    if isinstance(n, ast.Call) and isinstance(n.func, ast.Attribute) and n.func.attr in MUTATORS and isinstance(n.func.value, ast.Name):
                        base = n.func.value.id
                    if base and base in outer_locals and base not in inner_locals:
                        out.append((mod, base, "%s.%s.%s:%d closure state" % (mod, outer.name, inner.name, n.lineno)))
    return out


def check_memo(holder, name):
    """every store `name[k]... = v` in the holder: the names v depends on (through assignments and the tests of
    enclosing ifs, transitively) are among those the key depends on, parameters feeding the key, or non-local names"""
    parts = holder.split(".")
    fn = None
    for i in range(len(parts) - 1, 0, -1):
        mod = ".".join(parts[:i])
        try:
            tree = repo.module_ast(mod)
        except KeyError:
            continue
        node = tree
        ok = True
        for p in parts[i:]:
            nxt = None
            for ch in ast.walk(node):
                if isinstance(ch, (ast.FunctionDef, ast.ClassDef)) and ch.name == p and ch is not node:
                    nxt = ch
                    break
            if nxt is None:
                ok = False
                break
            node = nxt
        if ok:
            fn = node
            break
    if fn is None:
        return False, "holder %s not found" % holder
    local = {n.id for n in ast.walk(fn) if isinstance(n, ast.Name) and isinstance(n.ctx, ast.Store)} | _fn_params(fn)
    # dependency map: local name -> names it is computed from (data + control)
    deps = {}

    def visit(stmts, control):
        for st in stmts:
            if isinstance(st, ast.Assign):
                used = {n.id for n in ast.walk(st.value) if isinstance(n, ast.Name)} | control
                for t in st.targets:
                    for n in ast.walk(t):
                        if isinstance(n, ast.Name) and isinstance(n.ctx, ast.Store):
                            deps.setdefault(n.id, set()).update(used)
            elif isinstance(st, ast.If):
                c2 = control | {n.id for n in ast.walk(st.test) if isinstance(n, ast.Name)}
                visit(st.body, c2)
                visit(st.orelse, c2)
            elif isinstance(st, ast.Try):
                visit(st.body, control)
                for h in st.handlers:
                    visit(h.body, control)
                visit(st.orelse, control)
                visit(st.finalbody, control)
            elif isinstance(st, (ast.For, ast.While, ast.With)):
                visit(st.body, control)
            elif isinstance(st, ast.Expr) and isinstance(st.value, ast.Call) and isinstance(st.value.func, ast.Attribute):
                # x.m(args) / x.attr.m(args): x may absorb the arguments
                b = st.value.func.value
                while isinstance(b, (ast.Attribute, ast.Subscript)):
                    b = b.value
                if isinstance(b, ast.Name):
                    used = {n.id for a in list(st.value.args) + [k.value for k in st.value.keywords] for n in ast.walk(a)
                            if isinstance(n, ast.Name)} | control
                    deps.setdefault(b.id, set()).update(used)
    visit(fn.body, set())
    params = _fn_params(fn)

    def closure(names):
        out = set()
        todo = [n for n in names if n in local]
        while todo:
            n = todo.pop()
            if n in out or n == name:
                continue
            out.add(n)
            todo += [d for d in deps.get(n, ()) if d in local]
        return out
    stores = []
    for n in ast.walk(fn):
        if isinstance(n, ast.Assign):
            for t in n.targets:
                b = t
                keys = []
                while isinstance(b, ast.Subscript):
                    keys.append(b.slice)
                    b = b.value
                if isinstance(b, ast.Name) and b.id == name and keys:
                    stores.append((keys, n.value, n.lineno))
    if not stores:
        return False, "no store found in %s" % holder
    msgs = []
    for keys, value, line in stores:
        knames = set()
        for k in keys:
            knames |= {x.id for x in ast.walk(k) if isinstance(x, ast.Name)}
        kclo = closure(knames) & params
        vclo = closure({x.id for x in ast.walk(value) if isinstance(x, ast.Name)}) & params
        extra = sorted(vclo - kclo)
        if extra:
            return False, "line %d: stored value depends on %s, which the key does not determine" % (line, ", ".join(extra))
        msgs.append("line %d: the stored value depends only on the parameters the key is computed from (%s)" % (line, ", ".join(sorted(kclo)) or "none: constant"))
    return True, "; ".join(msgs)

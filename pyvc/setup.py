"""bin/check --setup: verify tool presence, warm caches. Builds nothing that needs the network."""
import os
import shutil
import subprocess
import sys

from . import repo


def setup():
    ok = True
    try:
        import z3
        print("z3", z3.get_version_string())
    except Exception as e:
        print("z3 python API missing:", e)
        ok = False
    for tool in ("/usr/bin/cvc5", repo.REALPY):
        if not os.path.exists(tool):
            print("missing", tool)
            ok = ok and tool != repo.REALPY
    os.makedirs(repo.BUILD, exist_ok=True)
    os.makedirs(os.path.join(repo.VERIF, "evidence"), exist_ok=True)
    os.makedirs(os.path.join(repo.VERIF, "replays"), exist_ok=True)
    try:
        c = repo.module_consts("html5lib.constants")
        print("html5lib.constants: %d globals" % len(c))
    except Exception as e:
        print("cannot import html5lib from", repo.REPO, e)
        ok = False
    return 0 if ok else 3

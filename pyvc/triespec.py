"""Abstract trie of the named character references: uninterpreted predicates/functions shared by the
tokenizer-side contract of `entitiesTrie` and by the specification of named references.

  is_key_prefix(s)            some entity name starts with s            (Trie.has_keys_with_prefix)
  some_key_is_prefix_of(s)    some entity name is a prefix of s
  longest_key_prefix(s)       the longest entity name that is a prefix of s   (Trie.longest_prefix)

That the real Trie computes exactly these on the real table is ground obligation
C14/trie/queries-agree-with-definition (exhaustive over all name prefixes and one-character extensions).
"""
import z3

from .values import SStr, SBool, mk_str, mk_bool, zs
from .engine import PyRaise
from . import builtins_ as B


def _preds(I):
    S = z3.StringSort()
    return (I.ctx.opaque_fn("is_key_prefix", [S], z3.BoolSort()),
            I.ctx.opaque_fn("some_key_is_prefix_of", [S], z3.BoolSort()),
            I.ctx.opaque_fn("longest_key_prefix", [S], S))


def _table_has(I):
    from html.entities import html5
    has, get = B.big_dict_fns(I, html5)
    return has, get


def lkp(I, z):
    hkp, some, lp = _preds(I)
    has, _ = _table_has(I)
    r = lp(z)
    # facts about the longest key that is a prefix of z (meaningful when there is one)
    I.ctx.assume(z3.Implies(some(z), z3.And(z3.PrefixOf(r, z), z3.Length(r) >= 1, has(r), hkp(r))))
    return r


@B._native("is_key_prefix")
def _is_key_prefix(I, args, kwargs):
    s = args[0]
    if isinstance(s, str):
        from html.entities import html5
        return any(k.startswith(s) for k in html5)
    return mk_bool(_preds(I)[0](zs(s)))


@B._native("some_key_is_prefix_of")
def _some_key_is_prefix_of(I, args, kwargs):
    s = args[0]
    if isinstance(s, str):
        from html.entities import html5
        return any(s.startswith(k) for k in html5)
    return mk_bool(_preds(I)[1](zs(s)))


@B._native("longest_key_prefix")
def _longest_key_prefix(I, args, kwargs):
    s = args[0]
    if isinstance(s, str):
        from html.entities import html5
        c = [k for k in html5 if s.startswith(k)]
        return max(c, key=len) if c else None
    return mk_str(lkp(I, zs(s)))


def abstract_trie(S):
    """stand-in for the module-level `entitiesTrie` object"""
    def has_keys_with_prefix(I, args, kwargs):
        return _is_key_prefix(I, args, kwargs)

    def longest_prefix(I, args, kwargs):
        s = args[0]
        some = _preds(I)[1](zs(s))
        if not I.ctx.branch(some):
            raise PyRaise("KeyError", "no entity name is a prefix")
        return mk_str(lkp(I, zs(s)))
    return S.abstract("Trie", has_keys_with_prefix=has_keys_with_prefix, longest_prefix=longest_prefix)

"""Regenerate /verif/MANIFEST.json from pyvc/propinfo.py:  python3-vt -m pyvc.manifest"""
import json
import os

from . import propinfo
from .repo import VERIF

ALL = ["C%02d" % i for i in range(1, 21)]
BASELINE = "cd /repo && /venv/bin/python -m pytest -ra -q -p no:cacheprovider --timeout=900 --continue-on-collection-errors"


def main():
    checks = []
    na = []
    for pid in ALL:
        info = propinfo.PROPS.get(pid)
        if info is None or info.get("not_applicable"):
            na.append({"property_id": pid, "reason": (info or {}).get("not_applicable", "check not built yet in this revision of /verif")})
            continue
        checks.append({
            "property_id": pid,
            "quick_cmd": "bin/check %s --tier quick" % pid,
            "thorough_cmd": "bin/check %s --tier thorough" % pid,
            "evidence_file": "evidence/%s.json" % pid,
            "replay_cmd_template": "bin/check replay {path}",
            "engine": "pyvc",
            "level_claimed": {"category": info.get("level", "proof"), "text": info["level_text"],
                              "design_ref": info.get("design_ref", "DESIGN.md section 6, " + pid)},
            "level_note": info["level_note"],
            "technique": info.get("technique", "contract-based deductive verification: VCs generated from the real AST, discharged by z3/cvc5"),
        })
    m = {
        "version": 1,
        "setup_cmd": "bin/check --setup",
        "hooks": {"guard": "HTML5LIB_VERIF", "enable": "no hooks are needed: contracts live in side-car files under /verif/contracts and the engine reads /repo's source as it is",
                  "baseline_off_cmd": BASELINE, "source_commits": [], "add_only": True},
        "engines": [{"name": "pyvc", "path": "pyvc/", "serves_properties": [c["property_id"] for c in checks],
                     "kind_free_text": "symbolic executor over the real Python AST generating verification conditions against side-car contracts; z3 + cvc5 back ends; exhaustive ground evaluation of finite domains on the real imported modules; native replay of counter-models"}],
        "checks": checks,
        "not_applicable": na,
        "notes": "exit codes of bin/check: 0 held, 1 violation (VIOLATION line), 2 undecided (solver unknown / code left the supported subset), 3 checker error. Known findings: known_findings.json.",
    }
    with open(os.path.join(VERIF, "MANIFEST.json"), "w") as fh:
        json.dump(m, fh, indent=1)
    print("MANIFEST.json: %d checks, %d not applicable" % (len(checks), len(na)))


if __name__ == "__main__":
    main()

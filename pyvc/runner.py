"""Run verification tasks (one per contract case) and collect obligation records."""
import importlib
import os
import sys
import time
import traceback

from . import repo

VERIF = repo.VERIF
if VERIF not in sys.path:
    sys.path.insert(0, VERIF)
repo.register_root("contracts", os.path.join(VERIF, "contracts"))
repo.register_root("spec", os.path.join(VERIF, "spec"))
repo.register_root("lemmas", os.path.join(VERIF, "lemmas"))


def load_sidecars(modnames):
    from . import contract as C
    for m in modnames:
        importlib.import_module(m)
    return C.REGISTRY


def all_sidecars():
    out = []
    d = os.path.join(VERIF, "contracts")
    for f in sorted(os.listdir(d)):
        if f.endswith(".py") and f != "__init__.py":
            out.append("contracts." + f[:-3])
    return out


def run_task(task):
    """task = (sidecar module, target, index, props filter or None). Executed in a worker process."""
    modname, target, idx, propfilter = task[:4]
    prefix = task[4] if len(task) > 4 else None
    probe_depth = task[5] if len(task) > 5 else None
    t0 = time.time()
    res = {"task": [modname, target, idx], "target": target, "obligations": [], "paths": 0,
           "completed_paths": 0, "error": None, "out_of_reach": [], "inlined": [], "assumed": [],
           "notes": [], "solver_ms": 0, "queries": 0}
    try:
        from .engine import Context, Budget, OutOfReach, PathEnd, PyRaise
        from .interp import Interp
        from .factory import Factory
        from .modular import eval_clause, snapshot, call_spec, plain_function
        from .values import Namespace
        from . import builtins_ as B
        from . import contract as C
        reg = load_sidecars(all_sidecars())
        contract = reg[target][idx]
        fn = repo.find_function(target)
        res["function"] = {"name": target, "file": os.path.relpath(fn.module.path, repo.REPO),
                           "lines": list(fn.lines()), "sha256": fn.sha256(), "contract": contract.name,
                           "case": contract.case}
        registry = {}
        for tgt, cs in reg.items():
            registry[tgt] = cs[0]
        budget = Budget()
        for k, v in contract.budget.items():
            setattr(budget, k, v)
        ctx = Context(registry, budget)
        I = Interp(ctx)
        for tgt, cs in reg.items():
            for c in cs:
                for ordn, spec in c.loops.items():
                    key = ordn if isinstance(ordn, tuple) else (c.target, ordn)
                    if key not in I.loop_specs or c is contract:
                        I.loop_specs[key] = spec
        ctx.current_task = target
        params = [a.arg for a in fn.node.args.args]
        clauses = [cl for cl in contract.ensures if propfilter is None or not cl.props or set(cl.props) & set(propfilter)]
        stats = {"completed": 0}
        safety_tags = tuple(sorted(set(("C03",) + tuple(contract.props))))
        import json as _json
        known_regions = {}
        kf = os.path.join(VERIF, "known_findings.json")
        if os.path.exists(kf):
            with open(kf) as fh:
                for k in _json.load(fh):
                    if k.get("status") == "known" and k.get("region"):
                        mname, fname = k["region"].split(":")
                        known_regions.setdefault(k["obligation"], []).append(
                            getattr(importlib.import_module(mname), fname))

        def thunk():
            S = Factory(ctx, I)
            inputs = contract.inputs(S)
            I.global_overrides = contract.globals(S) if contract.globals else {}
            ctx.input_template = snapshot(dict(inputs))
            ghost = contract.ghost(S, Namespace(inputs)) if contract.ghost else {}
            ctx.ghost_template = snapshot(dict(ghost))
            env = dict(inputs)
            env.update(ghost)
            I.top_env = env
            for cl in contract.requires:
                v = eval_clause(I, contract, cl, env)
                ctx.assume(I.truth(v))
            old = Namespace(snapshot(env))
            from .values import fresh_oid
            ctx.entry_oid = fresh_oid()
            I.top_env = dict(env)
            I.top_env["old"] = old
            args = [inputs[p] for p in params if p in inputs]
            kwargs = {}
            raised = None
            try:
                result = I.call_function(fn, args, kwargs, top=True, record_frame=True)
            except PyRaise as e:
                raised = e
                result = None
            except OutOfReach as e:
                res["out_of_reach"].append("%s [path %d]" % (e, ctx.path_index))
                return
            if raised is not None:
                allowed = contract.raises.get(raised.name)
                if allowed is None:
                    for k in contract.raises:
                        from .engine import exc_isa
                        if exc_isa(raised.name, k):
                            allowed = contract.raises[k]
                site = fn.site_ordinal(raised.site) if raised.site is not None else "?"
                oid = "%s/safety/%s@%s" % (target, raised.name, site)
                if allowed is None:
                    ctx.record_raise(oid, raised, "uncaught %s: %s" % (raised.name, raised.msg), safety_tags)
                    return
                if allowed is not True:
                    env2 = dict(env)
                    env2["old"] = old
                    fi = plain_function(allowed)
                    for extra, v in ctx.sub_explore(lambda: I.truth(call_spec(I, fi, env2))):
                        ctx.oblige(oid + "/allowed-when", "safety", B.z_implies(B.z_and(extra), v), tags=safety_tags)
                stats["completed"] += 1
                return
            stats["completed"] += 1
            env2 = dict(env)
            env2["old"] = old
            env2["result"] = result
            tf = getattr(I, "top_frame", None)
            if tf is not None:
                env2["final"] = Namespace(dict(tf.locals))
            for cl in clauses:
                oid = "%s/ensures:%s" % (target, cl.name) + ("[%s]" % contract.case if contract.case else "")
                regs = [plain_function(f) for f in known_regions.get(oid, [])]

                def clause_value(cl=cl, regs=regs):
                    v = I.truth(eval_clause(I, contract, cl, env2))
                    if regs:
                        rs = [I.truth(call_spec(I, fi, env2)) for fi in regs]
                        v = B.z_implies(B.z_not(B.z_or(rs)), v)
                    return v
                try:
                    subs = ctx.sub_explore(clause_value)
                except OutOfReach as e:
                    res["out_of_reach"].append("clause %s: %s [path %d]" % (cl.name, e, ctx.path_index))
                    continue
                if not subs:
                    # every case of the clause was cut as infeasible: then the path itself must be infeasible
                    r0 = ctx.check(None, timeout=ctx.budget.prove_ms)[0]
                    if r0 != "unsat":
                        from .engine import Obligation
                        ctx.obligations.append(Obligation(oid, "ensures", "unknown", 0.0, "z3",
                                                          "no feasible case of the clause on a path not shown infeasible (%s)" % r0,
                                                          None, ctx.path_index, cl.props or contract.props))
                kind = "bounded" if getattr(cl.fn, "_bounded", None) else "ensures"
                for extra, v in subs:
                    try:
                        ctx.oblige(oid, kind, B.z_implies(B.z_and(extra), v), tags=cl.props or contract.props,
                                   assume_after=False, detail=getattr(cl.fn, "_bounded", None))
                    except PathEnd:
                        pass

        if prefix is None:
            # contracts that declare `no_recursion = True` (the function walks a structure as deep as the input):
            # direct recursion costs an interpreter stack frame per level, so the function could raise RecursionError
            # however correct its result is
            import ast as _ast
            short = target.rsplit(".", 1)[-1]
            rec_calls = [n for n in _ast.walk(fn.node) if isinstance(n, _ast.Call) and (
                (isinstance(n.func, _ast.Attribute) and n.func.attr == short and isinstance(n.func.value, _ast.Name) and n.func.value.id == "self")
                or (isinstance(n.func, _ast.Name) and n.func.id == short))]
            if rec_calls and getattr(contract.holder, "no_recursion", False):
                from .engine import Obligation
                ctx.obligations.append(Obligation("%s/termination:recursion-depth-independent-of-input" % target, "termination", "failed", 0.0,
                                                  "syntactic", "calls itself at line %d: recursion depth is not bounded by the contract, "
                                                  "a long enough input overflows the interpreter stack (RecursionError)" % rec_calls[0].lineno,
                                                  None, 0, safety_tags))
        try:
            if probe_depth is not None:
                ctx.explore(thunk, cut_depth=probe_depth)
                # paths that ended before the cut depth are re-run by the task that owns their prefix: report only prefixes
                res["prefixes"] = ctx.cut_prefixes
                res["probe"] = True
                res["obligations_probe"] = [o.as_dict() for o in ctx.obligations]
                ctx.obligations = []
            else:
                res["paths"] = ctx.explore(thunk, initial=[prefix] if prefix is not None else None)
        except OutOfReach as e:
            res["out_of_reach"].append(str(e))
        for site, (nfalse, nok) in sorted(ctx.modular_sites.items()):
            if nfalse and not nok:
                msg = "postcondition %s of %s was false outright on every path that reached the call at line %d (does the contract declare result()?)" % (site[2], site[0], site[1])
                if prefix is None and probe_depth is None:
                    res["out_of_reach"].append(msg)
                else:
                    ctx.notes.append(msg)
        res["completed_paths"] = stats["completed"]
        res["obligations"] = [o.as_dict() for o in ctx.obligations]
        res["inlined"] = sorted(ctx.inlined)
        res["assumed"] = sorted(ctx.assumed_contracts)
        res["notes"] = ctx.notes
        res["solver_ms"] = round(ctx.solver_ms, 1)
        res["queries"] = ctx.queries
    except Exception:
        res["error"] = traceback.format_exc()
    res["wall_s"] = round(time.time() - t0, 2)
    return res


def tasks_for(props=None, targets=None):
    """All (module, target, idx) whose contract serves one of `props`."""
    reg = load_sidecars(all_sidecars())
    out = []
    for tgt, cs in reg.items():
        for i, c in enumerate(cs):
            serves = set(c.props)
            for cl in c.ensures:
                serves |= set(cl.props)
            for sp in c.loops.values():
                serves |= set(sp.props)
            if props is not None and not (serves & set(props)):
                continue
            if targets is not None and tgt not in targets:
                continue
            if getattr(c.holder, "abstract_only", False):
                continue
            if getattr(c.holder, "thorough_only", False) and os.environ.get("VERIF_TIER_EFFECTIVE", "quick") != "thorough":
                continue
            out.append((c.module, tgt, i, list(props) if props else None))
    return out


def split_tasks(tasks, jobs):
    """Contracts that declare `split_depth = k` are explored in two phases: a probe that stops at the
    k-th decision and lists the decision prefixes reached, then one task per prefix (disjoint subtrees
    that together cover every path; paths shorter than k are completed by the probe itself)."""
    import multiprocessing as mp
    reg = load_sidecars(all_sidecars())
    plain, probes = [], []
    for t in tasks:
        c = reg[t[1]][t[2]]
        k = getattr(c.holder, "split_depth", 0)
        if k:
            probes.append(tuple(t[:4]) + (None, k))
        else:
            plain.append(t)
    if not probes:
        return plain, []
    ctxm = mp.get_context("fork")
    with ctxm.Pool(min(jobs, len(probes))) as pool:
        pres = pool.map(run_task, probes)
    out = list(plain)
    short = []
    for t, r in zip(probes, pres):
        if r.get("error"):
            out.append(tuple(t[:4]))
            continue
        for pf in r.get("prefixes", []):
            out.append(tuple(t[:4]) + (pf,))
        r2 = dict(r)
        r2["obligations"] = r.get("obligations_probe", [])
        short.append(r2)
    return out, short


def merge_results(results):
    """merge per-prefix results of the same (target, idx) into one record"""
    by = {}
    order = []
    for r in results:
        key = (r["task"][1], r["task"][2])
        if key not in by:
            by[key] = r
            order.append(key)
            continue
        a = by[key]
        a["obligations"] = a["obligations"] + r["obligations"]
        for k in ("paths", "completed_paths", "solver_ms", "queries"):
            a[k] = (a.get(k) or 0) + (r.get(k) or 0)
        for k in ("out_of_reach", "inlined", "assumed", "notes"):
            a[k] = sorted(set(list(a.get(k) or []) + list(r.get(k) or [])))
        a["error"] = a.get("error") or r.get("error")
        a["wall_s"] = max(a.get("wall_s", 0), r.get("wall_s", 0))
        if "function" not in a and "function" in r:
            a["function"] = r["function"]
    return [by[k] for k in order]


def run_all(tasks, jobs=None):
    import multiprocessing as mp
    jobs = jobs or 16
    tasks, short = split_tasks(tasks, jobs)
    res = _run_pool(tasks, jobs)
    return merge_results(short + res)


def _run_pool(tasks, jobs=None):
    import multiprocessing as mp
    jobs = jobs or min(16, max(1, len(tasks)))
    if jobs == 1 or len(tasks) <= 1:
        return [run_task(t) for t in tasks]
    ctxm = mp.get_context("fork")
    limit = float(os.environ.get("H5V_TASK_TIMEOUT", "900"))
    t_end = time.time() + limit
    out = []
    pool = ctxm.Pool(jobs, maxtasksperchild=8)
    try:
        pending = [(t, pool.apply_async(run_task, (t,))) for t in tasks]
        for t, ar in pending:
            try:
                out.append(ar.get(timeout=max(1.0, t_end - time.time())))
            except mp.TimeoutError:
                out.append({"task": list(t[:3]), "target": t[1], "obligations": [], "paths": 0, "completed_paths": 0,
                            "error": None, "out_of_reach": ["exploration exceeded %.0f s (undecided, not a violation)" % limit],
                            "inlined": [], "assumed": [], "notes": [], "solver_ms": 0, "queries": 0, "wall_s": limit})
    finally:
        pool.terminate()
    return out

"""Loops: concrete unrolling, or the invariant rule when the side-car supplies a LoopSpec."""
import ast

from .values import Obj, DictV, ListV, Namespace, Sym
from .engine import OutOfReach, PathEnd, PyRaise, BreakSig, ContinueSig
from . import builtins_ as B


class Locals(object):
    """Mutable view of a frame's locals for native havoc code: L.x / L.x = v."""
    def __init__(self, frame):
        object.__setattr__(self, "_f", frame)
        object.__setattr__(self, "_written", set())

    def __getattr__(self, k):
        return self._f.locals[k]

    def __setattr__(self, k, v):
        self._f.locals[k] = v
        self._written.add(k)


def _names(node, ctxtype):
    return {n.id for n in ast.walk(node) if isinstance(n, ast.Name) and isinstance(n.ctx, ctxtype)}


def loop_carried(st):
    """Locals that carry a value from one iteration to the next (or out of the loop): assigned in
    the body and possibly read before being (unconditionally) re-assigned.  Conservative, syntactic."""
    assigned = set()
    for n in ast.walk(st):
        if isinstance(n, ast.Name) and isinstance(n.ctx, (ast.Store, ast.Del)):
            assigned.add(n.id)
    definitely = set()
    if isinstance(st, ast.For):
        definitely |= _names(st.target, ast.Store)
    carried = set()
    if isinstance(st, ast.While):
        carried |= (_names(st.test, ast.Load) & assigned)
    for s in st.body:
        loads = _names(s, ast.Load)
        if isinstance(s, ast.AugAssign) and isinstance(s.target, ast.Name):
            loads.add(s.target.id)
        carried |= {x for x in loads if x in assigned and x not in definitely}
        if isinstance(s, ast.Assign):
            for t in s.targets:
                if isinstance(t, ast.Name):
                    definitely.add(t.id)
                elif isinstance(t, (ast.Tuple, ast.List)):
                    definitely |= {e.id for e in t.elts if isinstance(e, ast.Name)}
    return carried


def frame_check(I, st, frame, L, base, tags):
    """Every loop-carried local must be re-assigned (havocked) by the loop contract; otherwise the
    arbitrary-iteration argument would silently fix that variable to its entry value."""
    missing = sorted(x for x in loop_carried(st) if x not in L._written)
    if missing:
        from .engine import Obligation
        I.ctx.obligations.append(Obligation(base + "/frame", "frame", "failed", 0.0, "syntactic",
                                            "loop-carried locals not covered by the loop contract: %s" % ", ".join(missing),
                                            None, I.ctx.path_index, tags))
        raise PathEnd("frame")

    def has(self, k):
        return k in self._f.locals


def loop_spec(I, frame, st):
    if frame.fn is None:
        return None, None
    ordn = frame.fn.site_ordinal(st)
    return I.loop_specs.get((frame.fn.fullname, ordn)), ordn


def clause_env(I, frame, extra=None):
    env = dict(I.top_env) if getattr(I, "top_env", None) else {}
    env.update(frame.locals)
    if extra:
        env.update(extra)
    return env


def oblige_clause(I, frame, fi, env, oid, kind, tags):
    from .modular import call_spec
    ctx = I.ctx
    for extra, v in ctx.sub_explore(lambda: I.truth(call_spec(I, fi, env))):
        ctx.oblige(oid, kind, B.z_implies(B.z_and(extra), v), tags=tags)


def assume_clause(I, fi, env):
    from .modular import call_spec
    v = call_spec(I, fi, env)
    I.ctx.assume(I.truth(v))


def exec_while(I, st, frame):
    from .modular import plain_function, call_spec, snapshot
    from .factory import Factory
    ctx = I.ctx
    spec, ordn = loop_spec(I, frame, st)
    if spec is None or spec.invariant is None:
        n = 0
        bound = (spec.unroll if spec is not None and spec.unroll else ctx.budget.max_loop_unroll)
        while True:
            c = I.eval(st.test, frame)
            if not I.is_true(c):
                I.exec_block(st.orelse, frame)
                return
            n += 1
            if n > bound:
                if spec is not None and spec.unroll:
                    ctx.notes.append("bounded: %s %s unrolled %d times" % (frame.fn.fullname, ordn, bound))
                    raise PathEnd("unroll-bound")
                raise OutOfReach("loop %s in %s needs an invariant (unrolled %d times)" % (ordn, frame.fn.fullname, bound))
            try:
                I.exec_block(st.body, frame)
            except BreakSig:
                return
            except ContinueSig:
                continue
    # ---- invariant rule
    base = "%s/%s" % (frame.fn.fullname, ordn)
    tags = spec.props
    inv = plain_function(spec.invariant)
    oblige_clause(I, frame, inv, clause_env(I, frame), base + "/invariant-established", "invariant", tags)
    pre = Namespace(snapshot(dict(frame.locals)))
    S = Factory(ctx, I)
    L = Locals(frame)
    if spec.havoc is not None:
        spec.havoc(S, L)
    frame_check(I, st, frame, L, base, tags)
    assume_clause(I, inv, clause_env(I, frame))
    head = Namespace(snapshot(dict(frame.locals)))
    dec = plain_function(spec.decreases) if spec.decreases is not None else None
    m0 = call_spec(I, dec, clause_env(I, frame)) if dec is not None else None
    c = I.eval(st.test, frame)
    if I.is_true(c):
        try:
            I.exec_block(st.body, frame)
        except BreakSig:
            return
        except ContinueSig:
            pass
        env = clause_env(I, frame, {"pre": head})
        oblige_clause(I, frame, inv, env, base + "/invariant-preserved", "invariant", tags)
        if dec is not None:
            m1 = call_spec(I, dec, env)
            from .values import zi
            import z3
            ctx.oblige(base + "/decreases", "termination", z3.And(zi(m1) < zi(m0), zi(m0) >= 0), tags=("C03",) + tuple(tags))
        for cl in spec.step:
            oblige_clause(I, frame, plain_function(cl.fn), env, base + "/step:" + cl.name, "step", cl.props or tags)
        raise PathEnd("loop-cut")
    I.exec_block(st.orelse, frame)


def exec_for(I, st, frame):
    from .modular import plain_function, call_spec, snapshot
    from .factory import Factory
    ctx = I.ctx
    spec, ordn = loop_spec(I, frame, st)
    if spec is None or (spec.element is None and spec.invariant is None):
        it = I.eval(st.iter, frame)
        items = B.iterate(I, it)
        for x in items:
            I.assign(st.target, x, frame)
            try:
                I.exec_block(st.body, frame)
            except BreakSig:
                return
            except ContinueSig:
                continue
        I.exec_block(st.orelse, frame)
        return
    base = "%s/%s" % (frame.fn.fullname, ordn)
    tags = spec.props
    inv = plain_function(spec.invariant) if spec.invariant is not None else None
    it = None
    if spec.element is None:
        it = I.eval(st.iter, frame)
    if inv is not None:
        oblige_clause(I, frame, inv, clause_env(I, frame), base + "/invariant-established", "invariant", tags)
    S = Factory(ctx, I)
    L = Locals(frame)
    if spec.havoc is not None:
        spec.havoc(S, L)
    frame_check(I, st, frame, L, base, tags)
    if inv is not None:
        assume_clause(I, inv, clause_env(I, frame))
    if ctx.choose(2) == 0:
        # one arbitrary iteration
        elem = spec.element(S, L) if spec.element is not None else None
        head = Namespace(snapshot(dict(frame.locals)))
        pre_elem = snapshot(elem)
        yf = frame
        while yf is not None and yf.yielded is None:
            yf = yf.parent
        ystart = len(yf.yielded) if yf is not None else 0
        I.assign(st.target, elem, frame)
        broke = False
        try:
            I.exec_block(st.body, frame)
        except BreakSig:
            broke = True
        except ContinueSig:
            pass
        env = clause_env(I, frame, {"pre": head, "element": elem, "pre_element": pre_elem,
                                    "yielded": ListV(yf.yielded[ystart:]) if yf is not None else ListV([])})
        for cl in spec.step:
            oblige_clause(I, frame, plain_function(cl.fn), env, base + "/step:" + cl.name, "step", cl.props or tags)
        if broke:
            return
        if inv is not None:
            oblige_clause(I, frame, inv, env, base + "/invariant-preserved", "invariant", tags)
        raise PathEnd("loop-cut")
    I.exec_block(st.orelse, frame)

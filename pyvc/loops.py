"""Loops: concrete unrolling, or the invariant rule when the side-car supplies a LoopSpec."""
import ast

from .values import Obj, DictV, ListV, Namespace, Sym
from .engine import OutOfReach, PathEnd, PyRaise, BreakSig, ContinueSig
from . import builtins_ as B


class Locals(object):
    """Mutable view of a frame's locals for native havoc code: L.x / L.x = v."""
    def __init__(self, frame):
        object.__setattr__(self, "_f", frame)
        object.__setattr__(self, "_written", set())

    def __getattr__(self, k):
        return self._f.locals[k]

    def __setattr__(self, k, v):
        self._f.locals[k] = v
        self._written.add(k)


def _names(node, ctxtype):
    return {n.id for n in ast.walk(node) if isinstance(n, ast.Name) and isinstance(n.ctx, ctxtype)}


def _comprehension_locals(node):
    """names bound by comprehensions / generator expressions / lambdas inside node: they are local to those"""
    out = set()
    for n in ast.walk(node):
        if isinstance(n, (ast.ListComp, ast.SetComp, ast.DictComp, ast.GeneratorExp)):
            for g in n.generators:
                out |= {x.id for x in ast.walk(g.target) if isinstance(x, ast.Name)}
        elif isinstance(n, ast.Lambda):
            out |= {a.arg for a in n.args.args}
    return out


def _loads(node):
    return {n.id for n in ast.walk(node) if isinstance(n, ast.Name) and isinstance(n.ctx, ast.Load)} - _comprehension_locals(node)


def _stores(node):
    return {n.id for n in ast.walk(node) if isinstance(n, ast.Name) and isinstance(n.ctx, (ast.Store, ast.Del))} - _comprehension_locals(node)


def _rbw(stmts, defined):
    """(names possibly read before being written, names definitely written afterwards or None if the
    end of the block is unreachable) for one pass through `stmts`, given the set already written."""
    reads = set()
    defined = set(defined)
    for s in stmts:
        if isinstance(s, (ast.Return, ast.Raise)):
            reads |= (_loads(s) - defined)
            return reads, None
        if isinstance(s, (ast.Break, ast.Continue)):
            return reads, None
        if isinstance(s, ast.Assign):
            reads |= (_loads(s.value) - defined)
            for t in s.targets:
                if isinstance(t, ast.Name):
                    defined.add(t.id)
                elif isinstance(t, (ast.Tuple, ast.List)) and all(isinstance(e, ast.Name) for e in t.elts):
                    defined |= {e.id for e in t.elts}
                else:
                    reads |= (_loads(t) - defined)
        elif isinstance(s, ast.AugAssign):
            reads |= (_loads(s.value) - defined)
            if isinstance(s.target, ast.Name):
                if s.target.id not in defined:
                    reads.add(s.target.id)
            else:
                reads |= (_loads(s.target) - defined)
        elif isinstance(s, ast.If):
            reads |= (_loads(s.test) - defined)
            r1, d1 = _rbw(s.body, defined)
            r2, d2 = _rbw(s.orelse, defined)
            reads |= r1 | r2
            if d1 is None and d2 is None:
                return reads, None
            defined = d2 if d1 is None else (d1 if d2 is None else (d1 & d2))
        elif isinstance(s, (ast.While, ast.For)):
            if isinstance(s, ast.While):
                reads |= (_loads(s.test) - defined)
                inner = set(defined)
            else:
                reads |= (_loads(s.iter) - defined)
                inner = set(defined) | _stores(s.target)
            r1, _ = _rbw(s.body, inner)
            # a nested loop may run zero times (nothing becomes defined); its later iterations start with at
            # least what the first one started with, so they read-before-write no more than the first
            reads |= r1
            r2, _ = _rbw(s.orelse, defined)
            reads |= r2
        elif isinstance(s, ast.Try):
            r1, d1 = _rbw(s.body, defined)
            reads |= r1
            ds = [d1]
            for h in s.handlers:
                rh, dh = _rbw(h.body, defined)
                reads |= rh
                ds.append(dh)
            ds = [d for d in ds if d is not None]
            if ds:
                nd = ds[0]
                for d in ds[1:]:
                    nd = nd & d
                defined = nd
            r3, _ = _rbw(s.finalbody, defined)
            reads |= r3
        else:
            reads |= (_loads(s) - defined)
    return reads, defined


def loop_carried(st):
    """Locals that carry a value from one iteration to the next: assigned somewhere in the loop and
    possibly read, in a later iteration (or in the loop test), before being written again."""
    assigned = _stores(st) - (_stores(st.target) if isinstance(st, ast.For) else set())
    start = _stores(st.target) if isinstance(st, ast.For) else set()
    reads, _ = _rbw(st.body, start)
    if isinstance(st, ast.While):
        reads |= _loads(st.test)
    return reads & assigned


def frame_check(I, st, frame, L, base, tags):
    """Every loop-carried local must be re-assigned (havocked) by the loop contract; otherwise the
    arbitrary-iteration argument would silently fix that variable to its entry value."""
    missing = sorted(x for x in loop_carried(st) if x not in L._written)
    if missing:
        from .engine import Obligation
        # the loop carries state the contract does not know: its one-arbitrary-iteration argument does not cover this
        # version of the code.  Undecided (the contract needs updating), never a violation: the new local may be harmless
        I.ctx.obligations.append(Obligation(base + "/frame", "frame", "unknown", 0.0, "syntactic",
                                            "loop-carried locals not covered by the loop contract: %s "
                                            "(the contract needs updating for this version of the code)" % ", ".join(missing),
                                            None, I.ctx.path_index, tags))
        raise PathEnd("frame")

    def has(self, k):
        return k in self._f.locals


def loop_spec(I, frame, st):
    if frame.fn is None:
        return None, None
    ordn = frame.fn.site_ordinal(st)
    return I.loop_specs.get((frame.fn.fullname, ordn)), ordn


def clause_env(I, frame, extra=None):
    env = dict(I.top_env) if getattr(I, "top_env", None) else {}
    env.update(frame.locals)
    if extra:
        env.update(extra)
    return env


def oblige_clause(I, frame, fi, env, oid, kind, tags, bounded=None):
    from .modular import call_spec, MissingState
    ctx = I.ctx
    if bounded:
        kind = "bounded"
    try:
        subs = ctx.sub_explore(lambda: I.truth(call_spec(I, fi, env)))
    except MissingState as e:
        # the loop contract talks about a local the code does not have (any more): renamed, or moved into an object
        # field (then the C12 frame contract reports it).  Either way this contract cannot be evaluated on this
        # version of the code: undecided, never a violation
        from .engine import Obligation
        ctx.obligations.append(Obligation(oid, "frame", "unknown", 0.0, "syntactic",
                                          str(e) + " (the contract needs updating for this version of the code)",
                                          None, ctx.path_index, tags))
        raise PathEnd("frame")
    for extra, v in subs:
        ctx.oblige(oid, kind, B.z_implies(B.z_and(extra), v), tags=tags, detail=bounded)


def assume_clause(I, fi, env):
    from .modular import call_spec
    v = call_spec(I, fi, env)
    I.ctx.assume(I.truth(v))


def exec_while(I, st, frame):
    from .modular import plain_function, call_spec, snapshot
    from .factory import Factory
    ctx = I.ctx
    spec, ordn = loop_spec(I, frame, st)
    if spec is None or spec.invariant is None:
        n = 0
        bound = (spec.unroll if spec is not None and spec.unroll else ctx.budget.max_loop_unroll)
        while True:
            c = I.eval(st.test, frame)
            if not I.is_true(c):
                I.exec_block(st.orelse, frame)
                return
            n += 1
            if n > bound:
                if spec is not None and spec.unroll:
                    ctx.notes.append("bounded: %s %s unrolled %d times" % (frame.fn.fullname, ordn, bound))
                    raise PathEnd("unroll-bound")
                raise OutOfReach("loop %s in %s needs an invariant (unrolled %d times)" % (ordn, frame.fn.fullname, bound))
            try:
                I.exec_block(st.body, frame)
            except BreakSig:
                return
            except ContinueSig:
                continue
    # ---- invariant rule
    base = "%s/%s" % (frame.fn.fullname, ordn)
    tags = spec.props
    inv = plain_function(spec.invariant)
    yf = frame
    while yf is not None and yf.yielded is None:
        yf = yf.parent
    ymark = getattr(frame, "iter_ystart", 0)
    entry_env = clause_env(I, frame, {"yielded": ListV(yf.yielded[ymark:]) if yf is not None else ListV([])})
    oblige_clause(I, frame, inv, entry_env, base + "/invariant-established", "invariant", tags)
    for cl in spec.entry:
        oblige_clause(I, frame, plain_function(cl.fn), entry_env, base + "/entry:" + cl.name, "step", cl.props or tags)
    pre = Namespace(snapshot(dict(frame.locals)))
    S = Factory(ctx, I)
    L = Locals(frame)
    if spec.havoc is not None:
        spec.havoc(S, L)
    frame_check(I, st, frame, L, base, tags)
    assume_clause(I, inv, clause_env(I, frame))
    head = Namespace(snapshot(dict(frame.locals)))
    dec = plain_function(spec.decreases) if spec.decreases is not None else None
    m0 = call_spec(I, dec, clause_env(I, frame)) if dec is not None else None
    c = I.eval(st.test, frame)
    if I.is_true(c):
        ystart = len(yf.yielded) if yf is not None else 0
        saved_mark = getattr(frame, "iter_ystart", 0)
        frame.iter_ystart = ystart
        broke = False
        try:
            I.exec_block(st.body, frame)
        except BreakSig:
            broke = True
        except ContinueSig:
            pass
        finally:
            frame.iter_ystart = saved_mark
        env = clause_env(I, frame, {"pre": head, "yielded": ListV(yf.yielded[ystart:]) if yf is not None else ListV([])})
        if broke:
            for cl in spec.step:
                oblige_clause(I, frame, plain_function(cl.fn), env, base + "/step:" + cl.name, "step", cl.props or tags,
                          bounded=getattr(cl.fn, "_bounded", None))
            return
        oblige_clause(I, frame, inv, env, base + "/invariant-preserved", "invariant", tags)
        if dec is not None:
            m1 = call_spec(I, dec, env)
            from .values import zi
            import z3
            ctx.oblige(base + "/decreases", "termination", z3.And(zi(m1) < zi(m0), zi(m0) >= 0), tags=("C03",) + tuple(tags))
        for cl in spec.step:
            oblige_clause(I, frame, plain_function(cl.fn), env, base + "/step:" + cl.name, "step", cl.props or tags,
                          bounded=getattr(cl.fn, "_bounded", None))
        raise PathEnd("loop-cut")
    I.exec_block(st.orelse, frame)


def exec_for(I, st, frame):
    from .modular import plain_function, call_spec, snapshot
    from .factory import Factory
    ctx = I.ctx
    spec, ordn = loop_spec(I, frame, st)
    if spec is None or (spec.element is None and spec.invariant is None):
        it = I.eval(st.iter, frame)
        items = B.iterate(I, it)
        for x in items:
            I.assign(st.target, x, frame)
            try:
                I.exec_block(st.body, frame)
            except BreakSig:
                return
            except ContinueSig:
                continue
        I.exec_block(st.orelse, frame)
        return
    base = "%s/%s" % (frame.fn.fullname, ordn)
    tags = spec.props
    inv = plain_function(spec.invariant) if spec.invariant is not None else None
    it = None
    if spec.element is None:
        it = I.eval(st.iter, frame)
    if inv is not None:
        oblige_clause(I, frame, inv, clause_env(I, frame), base + "/invariant-established", "invariant", tags)
    S = Factory(ctx, I)
    L = Locals(frame)
    if spec.havoc is not None:
        spec.havoc(S, L)
    frame_check(I, st, frame, L, base, tags)
    if inv is not None:
        assume_clause(I, inv, clause_env(I, frame))
    if ctx.choose(2) == 0:
        # one arbitrary iteration
        elem = spec.element(S, L) if spec.element is not None else None
        head = Namespace(snapshot(dict(frame.locals)))
        pre_elem = snapshot(elem)
        try:        # make the arbitrary iteration visible in counter-models
            gt = getattr(ctx, "ghost_template", None)
            if gt is not None:
                gt["loop_element"] = pre_elem
                for k in getattr(L, "_written", ()):
                    gt["loop_state." + k] = snapshot(frame.locals.get(k))
        except Exception:
            pass
        yf = frame
        while yf is not None and yf.yielded is None:
            yf = yf.parent
        ystart = len(yf.yielded) if yf is not None else 0
        I.assign(st.target, elem, frame)
        broke = False
        try:
            I.exec_block(st.body, frame)
        except BreakSig:
            broke = True
        except ContinueSig:
            pass
        env = clause_env(I, frame, {"pre": head, "element": elem, "pre_element": pre_elem,
                                    "yielded": ListV(yf.yielded[ystart:]) if yf is not None else ListV([])})
        for cl in spec.step:
            oblige_clause(I, frame, plain_function(cl.fn), env, base + "/step:" + cl.name, "step", cl.props or tags,
                          bounded=getattr(cl.fn, "_bounded", None))
        if broke:
            return
        if inv is not None:
            oblige_clause(I, frame, inv, env, base + "/invariant-preserved", "invariant", tags)
        raise PathEnd("loop-cut")
    I.exec_block(st.orelse, frame)

"""bin/check: decide one property.   exit 0 held / 1 violation / 2 undecided / 3 checker error."""
import hashlib
import json
import os
import subprocess
import sys
import time
import traceback

from . import repo

VERIF = repo.VERIF


def load_known():
    p = os.path.join(VERIF, "known_findings.json")
    if not os.path.exists(p):
        return []
    with open(p) as fh:
        return json.load(fh)


def native_env():
    env = dict(os.environ)
    env["PYTHONPATH"] = VERIF + os.pathsep + repo.REPO
    env.pop("PYTHONHOME", None)
    return env


def run_native(args, timeout=600):
    return subprocess.run([repo.REALPY] + args, capture_output=True, text=True, env=native_env(),
                          cwd=VERIF, timeout=timeout)


def write_replay(prop, doc):
    os.makedirs(os.path.join(VERIF, "replays"), exist_ok=True)
    h = hashlib.sha256(json.dumps(doc, sort_keys=True, default=str).encode()).hexdigest()[:10]
    path = os.path.join("replays", "%s-%s.json" % (prop, h))
    with open(os.path.join(VERIF, path), "w") as fh:
        json.dump(doc, fh, indent=1, sort_keys=True, default=str)
    return path


def replay_file(path):
    out = run_native(["-m", "pyvc.replay_native", path])
    try:
        res = json.loads(out.stdout.strip().splitlines()[-1])
    except Exception:
        res = {"error": (out.stdout + out.stderr)[-2000:]}
    return out.returncode, res


def run_ground(prop, tier):
    """Ground (exhaustive finite-domain) obligations, evaluated on the real imported objects."""
    gdir = os.path.join(VERIF, "ground")
    if not os.path.exists(os.path.join(gdir, "run.py")):
        return []
    out = run_native(["-m", "ground.run", prop, tier], timeout=3000)
    if out.returncode != 0:
        raise RuntimeError("ground runner failed: " + (out.stdout + out.stderr)[-3000:])
    return json.loads(out.stdout.strip().splitlines()[-1])


def main(argv):
    t0 = time.time()
    if len(argv) >= 2 and argv[1] == "--setup":
        from .setup import setup
        return setup()
    if len(argv) >= 3 and argv[1] == "replay":
        code, res = replay_file(argv[2])
        print(json.dumps(res, indent=1))
        return code
    if len(argv) < 2:
        print(__doc__)
        return 3
    prop = argv[1]
    tier = os.environ.get("VERIF_TIER", "quick")
    if "--tier" in argv:
        tier = argv[argv.index("--tier") + 1]
    os.environ["VERIF_TIER_EFFECTIVE"] = tier
    seed = int(os.environ.get("VERIF_SEED", "0") or 0)
    jobs = int(os.environ.get("H5V_JOBS", "16"))
    try:
        return decide(prop, tier, seed, jobs, t0)
    except Exception:
        traceback.print_exc()
        print("CHECKER-ERROR property=%s" % prop)
        return 3


def decide(prop, tier, seed, jobs, t0):
    from . import runner
    from . import propinfo
    info = propinfo.PROPS.get(prop)
    if info is None:
        print("unknown property " + prop)
        return 3
    known = [k for k in load_known() if prop in k["property"]]
    tasks = runner.tasks_for(props=[prop])
    results = runner.run_all(tasks, jobs=jobs) if tasks else []
    if info.get("frames"):
        from . import frames
        results = results + frames.run(prop)
    ground = run_ground(prop, tier)
    bounded = []
    if tier == "thorough" or info.get("bounded_in_quick"):
        from . import bounded as Bd
        ground = ground + Bd.run(prop, tier, seed)

    violations = []
    undecided = []
    errors = []
    known_seen = []
    ob_total = 0
    ob_proved = 0
    functions = []
    solver_ms = 0.0
    samples = []
    by_solver = {}
    inlined, assumed, notes = set(), set(), []

    for r in results:
        if r["error"]:
            errors.append("%s: %s" % (r["target"], r["error"]))
            continue
        solver_ms += r["solver_ms"]
        inlined |= set(r["inlined"])
        assumed |= set(r["assumed"])
        notes += r["notes"]
        per_id = {}
        for o in r["obligations"]:
            if prop not in o["tags"] and o["tags"]:
                continue
            per_id.setdefault(o["id"], []).append(o)
        fn = dict(r.get("function", {}))
        fn.update({"paths": r["paths"], "completed_paths": r["completed_paths"], "obligations": 0,
                   "discharged": 0, "solver_ms": r["solver_ms"], "queries": r["queries"]})
        if r["out_of_reach"]:
            undecided.append({"obligation": r["target"], "why": "out of reach: " + "; ".join(r["out_of_reach"][:3])})
        if r["completed_paths"] == 0 and not r["out_of_reach"] and not r["obligations"]:
            errors.append("%s: no path reached the end of the function (vacuous contract?)" % r["target"])
        for oid, obs in sorted(per_id.items()):
            for o in obs:
                if o["kind"] == "bounded":
                    # bounded stand-in: a refutation is a violation, a pass is reported but never counted as proved
                    if o["verdict"] == "failed":
                        violations.append({"obligation": oid, "result": r, "ob": dict(o, kind="ensures")})
                    b = next((x for x in bounded if x.get("obligation") == oid), None)
                    if b is None:
                        b = {"obligation": oid, "bound": o["detail"], "tool": "pyvc symbolic execution within the bound", "cases": 0, "passed": 0}
                        bounded.append(b)
                    b["cases"] += 1
                    b["passed"] += 1 if o["verdict"] == "proved" else 0
                    continue
                ob_total += 1
                fn["obligations"] += 1
                by_solver[o["solver"]] = by_solver.get(o["solver"], 0) + 1
                if o["verdict"] == "proved":
                    ob_proved += 1
                    fn["discharged"] += 1
                    if len(samples) < 4 and o["solver"] != "trivial":
                        samples.append({"obligation": oid, "path": o["path"], "verdict": "unsat", "solver": o["solver"], "ms": o["ms"]})
                elif o["verdict"] == "failed":
                    violations.append({"obligation": oid, "result": r, "ob": o})
                else:
                    undecided.append({"obligation": oid, "why": ("solver " + o["verdict"]) if o.get("solver") != "syntactic" else str(o.get("detail"))})
        functions.append(fn)

    g_total = g_ok = 0
    ground_out = []
    for g in ground:
        if g.get("bounded"):
            bounded.append({"obligation": g["id"], "bound": g["bounded"], "tool": "native enumeration on the real code",
                            "cases": g.get("size"), "passed": g.get("size") if g["ok"] else None})
            if not g["ok"]:
                violations.append({"obligation": g["id"], "ground": g})
            continue
        g_total += 1
        rec = {k: g[k] for k in ("id", "size", "exhaustive", "what") if k in g}
        if g["ok"]:
            g_ok += 1
        else:
            violations.append({"obligation": g["id"], "ground": g})
            rec["failed"] = True
        ground_out.append(rec)
        if len(samples) < 8:
            samples.append({"obligation": g["id"], "kind": "ground", "size": g.get("size"), "ok": g["ok"]})

    lines = []
    exit_code = 0
    # ---- known findings: replay each stored witness
    for k in known:
        if k.get("status") != "known":
            continue
        doc = dict(k.get("replay") or {})
        if k.get("native"):
            out = run_native(["-m", "ground.run", "--call", k["native"]])
            still = out.returncode == 0 and out.stdout.strip().splitlines()[-1:] == ["true"]
        elif doc:
            doc["property"] = prop
            path = write_replay(prop + "-known", doc)
            code, res = replay_file(path)
            still = code == 1
        else:
            still = True
        if still:
            lines.append("KNOWN-FINDING: property=%s %s" % (prop, k["text"]))
            known_seen.append(k["id"])
        else:
            notes.append("known finding %s no longer reproduces" % k["id"])

    # ---- violations: replay
    nviol = 0
    seen_v = set()
    for v in violations:
        if "ground" in v:
            g = v["ground"]
            kid = known_match_ground(known, g)
            if kid:
                continue
            doc = {"property": prop, "obligation": g["id"], "kind": "ground", "witness": g.get("witness"),
                   "what": g.get("what"), "replay_cmd": "/venv/bin/python -m ground.run %s quick  (see id %s)" % (prop, g["id"])}
            path = write_replay(prop, doc)
            lines.append("VIOLATION property=%s replay=%s obligation=%s witness=%s" % (prop, path, g["id"], json.dumps(g.get("witness"))[:300]))
            nviol += 1
            continue
        o, r = v["ob"], v["result"]
        key = (o["id"],)
        kind = "safety" if o["kind"] == "safety" else "ensures"
        clause = o["id"].split("ensures:")[-1].split("[")[0] if "ensures:" in o["id"] else (o["id"].split("step:")[-1] if "step:" in o["id"] else None)
        doc = {"property": prop, "obligation": o["id"], "kind": kind, "function": r["function"],
               "sidecar": r["task"][0], "contract": r["function"]["contract"], "clause": clause,
               "inputs": o["model"], "path": o["path"], "solver": o["solver"], "detail": o["detail"],
               "exception": o["id"].split("/safety/")[-1].split("@")[0] if kind == "safety" else None}
        path = write_replay(prop, doc)
        if "/step:" in o["id"] and o["model"]:
            doc["kind"] = "step"
            with open(os.path.join(VERIF, path), "w") as fh:
                json.dump(doc, fh, indent=1, sort_keys=True, default=str)
            code, res = replay_file(path)
            if code == 0:
                res.setdefault("note", "loop/call-site obligation: the solver's state did not replay")
                if not res["note"].startswith("loop/call-site"):
                    res["note"] = "loop/call-site obligation: " + res["note"]
        elif o["kind"] in ("invariant", "step", "frame", "termination", "call-requires", "spec-assert") or \
                "/step:" in o["id"] or "/invariant" in o["id"]:
            # obligations about an arbitrary loop iteration / call site: the solver's state is not an
            # input of a public function, so there is nothing to replay natively
            code, res = 0, {"note": "loop/call-site obligation: no native replay", "solver_state": o["model"]}
        else:
            code, res = replay_file(path)
            if code == 3 and res.get("error") == "contract has no native call()":
                code, res = 0, {"note": "loop/call-site obligation: the contract has no native replay harness", "solver_state": o["model"]}
        doc["native"] = res
        with open(os.path.join(VERIF, path), "w") as fh:
            json.dump(doc, fh, indent=1, sort_keys=True, default=str)
        if code == 1:
            if key in seen_v and nviol >= 1:
                continue
            seen_v.add(key)
            lines.append("VIOLATION property=%s replay=%s obligation=%s input=%s observed=%s" % (
                prop, path, o["id"], json.dumps(o["model"])[:400], (res.get("observed") or res.get("raised") or "")[:120]))
            nviol += 1
        elif code == 0:
            if key in seen_v:
                continue
            seen_v.add(key)
            # the model may depend on an abstraction (arbitrary table / opaque function): search the
            # contract's candidate inputs for a real failing one
            if not res.get("note", "").startswith("loop/call-site"):
                so = run_native(["-m", "pyvc.replay_native", "--search", path], timeout=300)
                try:
                    sres = json.loads(so.stdout.strip().splitlines()[-1])
                except Exception:
                    sres = {}
                if so.returncode == 1 and sres.get("found_input") is not None:
                    doc["inputs"] = sres["found_input"]
                    doc["native"] = sres
                    doc["note"] = "input found by searching the contract's candidate generator after the solver model (kept as solver_model) did not replay"
                    doc["solver_model"] = o["model"]
                    with open(os.path.join(VERIF, path), "w") as fh:
                        json.dump(doc, fh, indent=1, sort_keys=True, default=str)
                    lines.append("VIOLATION property=%s replay=%s obligation=%s input=%s observed=%s" % (
                        prop, path, o["id"], json.dumps(sres["found_input"])[:400], (sres.get("observed") or "")[:120]))
                    nviol += 1
                    continue
            why = ("syntactic-obligation-failed: " + str(o.get("detail"))[:300].replace("\n", " ")) if o.get("solver") == "syntactic" \
                else "solver-model-did-not-replay"
            lines.append("VIOLATION property=%s replay=%s obligation=%s %s no-failing-input-found" % (
                prop, path, o["id"], why))
            nviol += 1
        else:
            errors.append("replay harness error for %s: %s" % (o["id"], json.dumps(res)[:500]))

    for l in lines:
        print(l)
    for u in undecided[:20]:
        print("UNDECIDED obligation=%s %s" % (u["obligation"], u["why"]))
    for e in errors[:10]:
        print("CHECKER-ERROR %s" % e[:3000])

    total = ob_total + g_total
    discharged = ob_proved + g_ok
    if total == 0 and not errors:
        errors.append("no obligations were generated for " + prop)
        print("CHECKER-ERROR no obligations generated")
    if nviol:
        exit_code = 1
    elif errors:
        exit_code = 3
    elif undecided:
        exit_code = 2

    wall = time.time() - t0
    ev = {
        "property_id": prop, "tier": tier, "seed": seed, "level": info.get("level", "proof"),
        "coverage": {
            "obligations": total, "discharged": discharged,
            "checker_cmd": "bin/check %s --tier %s" % (prop, tier),
            "trusted_base": propinfo.TRUSTED_BASE + info.get("trusted_base", []),
            "solver_obligations": ob_total, "solver_discharged": ob_proved,
            "ground_obligations": g_total, "ground_discharged": g_ok,
            "by_backend": by_solver, "solver_time_s": round(solver_ms / 1000.0, 2),
            "functions_under_contract": functions, "ground": ground_out,
            "bounded_standins": bounded, "inlined_callees": sorted(inlined),
            "assumed_contracts_at_call_sites": sorted(assumed),
            "samples": samples or [{"note": "no obligations"}],
            "known_findings_seen": known_seen, "undecided": undecided[:50], "notes": notes[:50],
            "not_decided": info.get("not_decided", []),
            "repo": repo.REPO, "tree_hash": repo.tree_hash(),
            "explanation": info.get("explanation", ""),
        },
        "assumptions": propinfo.ASSUMPTIONS + info.get("assumptions", []),
        "wall_s": round(wall, 2), "violations": nviol,
    }
    evdir = os.path.join(VERIF, "evidence")
    if os.path.realpath(repo.REPO) != "/repo":
        evdir = os.path.join(VERIF, "build", "evidence-scratch")     # scratch copies never touch committed evidence
    os.makedirs(evdir, exist_ok=True)
    with open(os.path.join(evdir, prop + ".json"), "w") as fh:
        json.dump(ev, fh, indent=1, default=str)
    print("%s tier=%s obligations=%d discharged=%d (solver %d/%d, ground %d/%d) violations=%d undecided=%d wall=%.1fs exit=%d" % (
        prop, tier, total, discharged, ob_proved, ob_total, g_ok, g_total, nviol, len(undecided), wall, exit_code))
    return exit_code


def known_match_ground(known, g):
    for k in known:
        if k.get("status") == "known" and k.get("obligation") == g["id"]:
            w = k.get("witness_in")
            if w is None or (g.get("witness") is not None and json.dumps(g["witness"], sort_keys=True) in [json.dumps(x, sort_keys=True) for x in w]):
                return k["id"]
    return None


if __name__ == "__main__":
    sys.exit(main(sys.argv))

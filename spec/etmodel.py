"""Model of xml.etree.ElementTree.Element as far as html5lib's etree tree builder uses it: a tag, an attribute dict,
text, tail and a list of children compared by identity.  The etree builder contracts (contracts/etree_builder.py) are
proved against this model; ground/c04_etmodel.py runs the model against the real ElementTree on enumerated operation
sequences (assumption, listed in the evidence)."""


class Element(object):
    def __init__(self, tag, attrib=None):
        self.tag = tag
        self.attrib = {}
        self.text = None
        self.tail = None
        self._children = []

    def append(self, subelement):
        self._children.append(subelement)

    def insert(self, index, subelement):
        self._children.insert(index, subelement)

    def remove(self, subelement):
        self._children.remove(subelement)

    def __len__(self):
        return len(self._children)

    def __getitem__(self, index):
        return self._children[index]

    def __iter__(self):
        return iter(self._children)

    def __delitem__(self, index):
        del self._children[index]

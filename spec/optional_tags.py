"""HTML syntax, "Optional tags" (WHATWG HTML 13.1.2.4), as far as a window of
(previous token, token, next token) of a tree-walker stream can express it.

"immediately followed by an X element"  == next token is a StartTag/EmptyTag named X
"no more content in the parent element" == next token is an EndTag (then it is the parent's)
                                           or the stream ends
"first thing inside the element is ..." == the next token
Written from the standard's text, not from html5lib.  Where two revisions of the standard
differ and the older rule is parse-equivalent (tfoot before tbody), either is accepted.
"""

START_OMISSIBLE = ("html", "head", "body", "colgroup", "tbody")
END_OMISSIBLE = ("html", "head", "body", "li", "dt", "dd", "p", "rt", "rp", "optgroup", "option",
                 "colgroup", "thead", "tbody", "tfoot", "tr", "td", "th")
ALL_OMISSIBLE = ("html", "head", "body", "li", "dt", "dd", "p", "rt", "rp", "optgroup", "option",
                 "colgroup", "thead", "tbody", "tfoot", "tr", "td", "th")

P_CLOSERS = ("address", "article", "aside", "blockquote", "details", "div", "dl", "fieldset",
             "figcaption", "figure", "footer", "form", "h1", "h2", "h3", "h4", "h5", "h6", "header",
             "hgroup", "hr", "main", "menu", "nav", "ol", "p", "pre", "section", "table", "ul")
P_PARENT_EXCLUDED = ("a", "audio", "del", "ins", "map", "noscript", "video")
BODY_START_BLOCKERS = ("meta", "link", "script", "style", "template")


def ttype(tok):
    return None if tok is None else tok["type"]


def is_element(tok, names):
    """next token starts an element with one of the names"""
    return tok is not None and tok["type"] in ("StartTag", "EmptyTag") and tok["name"] in names


def any_element(tok):
    return tok is not None and tok["type"] in ("StartTag", "EmptyTag")


def no_more_content(tok):
    return tok is None or tok["type"] == "EndTag"


def may_omit_start(tagname, previous, next):
    if tagname == "html":
        return ttype(next) != "Comment"
    if tagname == "head":
        # empty element, or first thing inside is an element
        return any_element(next) or (next is not None and next["type"] == "EndTag" and next["name"] == "head")
    if tagname == "body":
        if next is None:
            return True
        if next["type"] == "EndTag":
            return True       # empty body
        if next["type"] in ("SpaceCharacters", "Comment"):
            return False
        return not is_element(next, BODY_START_BLOCKERS)
    if tagname == "colgroup":
        # first thing inside is a col element (the "previous colgroup with omitted end tag" half is
        # enforced on the end-tag side: may_omit_end("colgroup") below)
        return is_element(next, ("col",))
    if tagname == "tbody":
        return is_element(next, ("tr",)) and not (
            previous is not None and previous["type"] == "EndTag" and previous["name"] in ("tbody", "thead", "tfoot"))
    return False


def may_omit_end(tagname, next):
    t = ttype(next)
    if tagname == "html" or tagname == "body":
        return t != "Comment"
    if tagname == "head" or tagname == "colgroup":
        return t != "Comment" and t != "SpaceCharacters"
    if tagname == "li":
        return is_element(next, ("li",)) or no_more_content(next)
    if tagname == "dt":
        return is_element(next, ("dt", "dd"))
    if tagname == "dd":
        return is_element(next, ("dt", "dd")) or no_more_content(next)
    if tagname == "p":
        if is_element(next, P_CLOSERS):
            return True
        if next is None:
            return True
        return next["type"] == "EndTag" and next["name"] not in P_PARENT_EXCLUDED
    if tagname == "rt" or tagname == "rp":
        return is_element(next, ("rt", "rp")) or no_more_content(next)
    if tagname == "optgroup":
        return is_element(next, ("optgroup",)) or no_more_content(next)
    if tagname == "option":
        return is_element(next, ("option", "optgroup")) or no_more_content(next)
    if tagname == "thead":
        return is_element(next, ("tbody", "tfoot"))
    if tagname == "tbody":
        return is_element(next, ("tbody", "tfoot")) or no_more_content(next)
    if tagname == "tfoot":
        # WHATWG (2020): no more content; W3C HTML5: also before tbody (parse-equivalent) -- accepted
        return is_element(next, ("tbody",)) or no_more_content(next)
    if tagname == "tr":
        return is_element(next, ("tr",)) or no_more_content(next)
    if tagname == "td" or tagname == "th":
        return is_element(next, ("td", "th")) or no_more_content(next)
    return False

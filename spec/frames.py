"""Frame contract for C12 (read by pyvc/frames.py): owners, how access paths resolve to them, which functions
re-initialise them at the start of every call, and the reviewed process-wide memo tables."""

PARSER_RULES = [(("self",), "Parser"), (("self", "tree"), "Tree"), (("self", "tokenizer"), "Tokenizer"),
                (("self", "phase"), "Phase"), (("self", "phases", "[]"), "Phase"),
                (("self", "tokenizer", "stream"), "Stream")]
PHASE_RULES = [(("self",), "Phase"), (("self", "parser"), "Parser"), (("self", "tree"), "Tree"),
               (("self", "parser", "tree"), "Tree"), (("self", "parser", "phase"), "Phase"),
               (("self", "parser", "phases", "[]"), "Phase"), (("self", "parser", "tokenizer"), "Tokenizer"),
               (("self", "parser", "tokenizer", "stream"), "Stream")]
TREE_RULES = [(("self",), "Tree")]
SER_RULES = [(("self",), "Serializer")]

# classes whose methods run during a call, with the resolver to use
PARTICIPANTS = [
    ("html5lib.html5parser", lambda name: name == "HTMLParser", PARSER_RULES),
    ("html5lib.html5parser", lambda name: name.endswith("Phase"), PHASE_RULES),
    ("html5lib.treebuilders.base", lambda name: name == "TreeBuilder", TREE_RULES),
    ("html5lib.treebuilders.etree", lambda name: name == "TreeBuilder", TREE_RULES),
    ("html5lib.treebuilders.dom", lambda name: name == "TreeBuilder", TREE_RULES),
    ("html5lib.serializer", lambda name: name == "HTMLSerializer", SER_RULES),
]

# owner -> how it is re-initialised at the start of every public call
OWNERS = {
    # every public entry (parse, parseFragment) calls _parse first; _parse runs these statements and reset() before
    # mainLoop, and again after a _ReparseException
    "Parser": dict(cls=("html5lib.html5parser", "HTMLParser"), reinit=["_parse", "reset"], stop_at_call="mainLoop",
                   entries={"parse": "_parse", "parseFragment": "_parse"},
                   config=["strict", "debug", "tree", "innerHTMLMode", "container", "scripting", "phases"],
                   sub=[("Tree", "self.tree.reset")]),
    "Tree": dict(cls=("html5lib.treebuilders.base", "TreeBuilder"), reinit=["reset"], config=["defaultNamespace"],
                 reinit_by=("Parser", "self.tree.reset")),
    # objects created anew by the owner's reinit: every field is fresh
    "Phase": dict(fresh_in=("Parser", "phases")),
    "Tokenizer": dict(fresh_in=("Parser", "tokenizer")),
    "Stream": dict(fresh_in=("Parser", "tokenizer"), note="created by HTMLTokenizer.__init__ from the caller's source"),
    "Serializer": dict(cls=("html5lib.serializer", "HTMLSerializer"), reinit=["serialize"], stop_at_call=None,
                       entries={"render": "serialize"},
                       config=["quote_attr_values", "quote_char", "use_best_quote_char", "omit_optional_tags",
                               "minimize_boolean_attributes", "use_trailing_solidus", "space_before_trailing_solidus",
                               "escape_lt_in_attrs", "escape_rcdata", "resolve_entities", "alphabetical_attributes",
                               "inject_meta_charset", "strip_whitespace", "sanitize", "strict"]),
}

# a field written during a call but not re-initialised is acceptable only under a write-before-read protocol:
# every read is in `readers`, and the mode in which readers run is entered only right after the field is assigned
PROTOCOLS = {
    ("Parser", "originalPhase"): dict(readers=["TextPhase"], mode_field="phase", mode_key="text"),
}

PACKAGE = ["html5lib." + m for m in (
    "html5parser", "_tokenizer", "_inputstream", "_utils", "serializer", "constants", "_ihatexml", "treebuilders",
    "treebuilders.base", "treebuilders.etree", "treebuilders.dom", "treewalkers", "treewalkers.base", "treewalkers.etree",
    "treewalkers.dom", "_trie", "_trie._base", "_trie.py", "filters.sanitizer", "filters.optionaltags", "filters.base",
    "filters.whitespace", "filters.alphabeticalattributes", "filters.inject_meta_charset", "filters.lint")]

# reviewed process-wide memo tables: (module, name) -> the function holding the store
MEMO = {
    ("html5lib._inputstream", "charsUntilRegEx"): "html5lib._inputstream.HTMLUnicodeInputStream.charsUntil",
    ("html5lib.treebuilders", "treeBuilderCache"): "html5lib.treebuilders.getTreeBuilder",
    ("html5lib.treewalkers", "treeWalkerCache"): "html5lib.treewalkers.getTreeWalker",
    ("html5lib._utils", "moduleCache"): "html5lib._utils.moduleFactoryFactory.moduleFactory",
}

# process-wide objects: methods the parser calls on them must not write their fields
SHARED_OBJECTS = {
    "entitiesTrie": dict(cls=[("html5lib._trie.py", "Trie"), ("html5lib._trie._base", "Trie")],
                         callers=["html5lib._tokenizer"]),
}

# classes whose methods (other than __init__) must not write any field of self: their per-token functions are then
# functions of the token and the configuration alone, so a contract proved for one arbitrary token holds for every
# token of a stream, whatever came before.  (module, class, properties served)
STATELESS = [
    ("html5lib.filters.sanitizer", "Filter", ("C09", "C10")),
    ("html5lib.filters.optionaltags", "Filter", ("C13", "C07")),
    ("html5lib.filters.whitespace", "Filter", ("C17",)),
    ("html5lib.filters.alphabeticalattributes", "Filter", ("C18", "C07")),
    ("html5lib._ihatexml", "InfosetFilter", ()),
    # the byte prescan: its per-element handlers communicate through `encoding` (the result) and the cursor in `data`
    # only; anything else written would carry state from one element of the prescanned bytes to the next
    ("html5lib._inputstream", "EncodingParser", ("C06",), ("encoding", "data")),
]

"""Tables of the WHATWG tree-construction algorithm (section 13.2.4.2 "The stack of open elements", 13.2.6 "Tree
construction"), transcribed from the standard, for comparison with html5lib's constants (ground obligations) and for
the scope contracts (contracts/treebuilder_base.py)."""
HTML = "http://www.w3.org/1999/xhtml"
MATHML = "http://www.w3.org/1998/Math/MathML"
SVG = "http://www.w3.org/2000/svg"

# "has an element in scope": the scope boundaries
SCOPE = frozenset([(HTML, n) for n in ("applet", "caption", "html", "table", "td", "th", "marquee", "object", "template")]
                  + [(MATHML, n) for n in ("mi", "mo", "mn", "ms", "mtext", "annotation-xml")]
                  + [(SVG, n) for n in ("foreignObject", "desc", "title")])
LIST_ITEM_SCOPE = SCOPE | frozenset([(HTML, "ol"), (HTML, "ul")])
BUTTON_SCOPE = SCOPE | frozenset([(HTML, "button")])
TABLE_SCOPE = frozenset([(HTML, "html"), (HTML, "table"), (HTML, "template")])
SELECT_SCOPE_EXCEPT = frozenset([(HTML, "optgroup"), (HTML, "option")])     # everything else is a boundary

FORMATTING = frozenset((HTML, n) for n in ("a", "b", "big", "code", "em", "font", "i", "nobr", "s", "small", "strike",
                                           "strong", "tt", "u"))

SPECIAL = frozenset([(HTML, n) for n in (
    "address", "applet", "area", "article", "aside", "base", "basefont", "bgsound", "blockquote", "body", "br", "button",
    "caption", "center", "col", "colgroup", "dd", "details", "dir", "div", "dl", "dt", "embed", "fieldset", "figcaption",
    "figure", "footer", "form", "frame", "frameset", "h1", "h2", "h3", "h4", "h5", "h6", "head", "header", "hgroup", "hr",
    "html", "iframe", "img", "input", "keygen", "li", "link", "listing", "main", "marquee", "menu", "meta", "nav",
    "noembed", "noframes", "noscript", "object", "ol", "p", "param", "plaintext", "pre", "script", "section", "select",
    "source", "style", "summary", "table", "tbody", "td", "template", "textarea", "tfoot", "th", "thead", "title", "tr",
    "track", "ul", "wbr", "xmp")]
    + [(MATHML, n) for n in ("mi", "mo", "mn", "ms", "mtext", "annotation-xml")]
    + [(SVG, n) for n in ("foreignObject", "desc", "title")])

IMPLIED_END_TAGS = frozenset(("dd", "dt", "li", "optgroup", "option", "p", "rb", "rp", "rt", "rtc"))

HEADINGS = ("h1", "h2", "h3", "h4", "h5", "h6")

# elements of the 1.1-era standard that html5lib does not implement at all: differences of the tables that only
# involve these are one known finding (C01-unsupported-elements), any other difference is a violation
UNSUPPORTED = frozenset(["template", "rb", "rtc", "main", "summary", "details", "dialog", "search", "keygen", "menuitem",
                         "param", "source", "track", "figcaption", "figure", "hgroup", "bgsound", "basefont", "frame",
                         "noembed", "plaintext", "wbr", "xmp", "embed", "area", "img", "input", "link", "meta", "hr", "br",
                         "col", "base"])

"""Numeric character references, WHATWG HTML 13.2.5.80 "numeric character reference end state".
The C1 remapping table is the independent copy in CPython's html module (html._invalid_charrefs)."""
from html import _invalid_charrefs

C1_TABLE = dict(_invalid_charrefs)      # 34 entries: 0x00, 0x0D, 0x80..0x9F


def numeric_ref(n):
    """the character(s) a numeric reference with value n decodes to"""
    if n in C1_TABLE:
        return C1_TABLE[n]
    if (0xD800 <= n and n <= 0xDFFF) or n > 0x10FFFF:
        return "�"
    return chr(n)

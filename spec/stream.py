"""The input-stream interface the tokenizer is verified against and HTMLUnicodeInputStream is
verified to implement.  `view(s)` is the normalised text that remains to be delivered.

For an *abstract* stream (tokenizer-side proofs) the view is a ghost field; for the real object it is
a function of its fields and of the ghost `src_rest` (the unread characters of the underlying source):
    chunk[chunkOffset:] + norm(buffered + src_rest)
"""
from pyvc.contract import in_chars, no_chars, implies, assume_lemma, code


def norm(t):
    """newline normalisation: the code's own two replace calls"""
    return t.replace("\r\n", "\n").replace("\r", "\n")


def buffered(s):
    return s._bufferedCharacter if s._bufferedCharacter else ""


def view(s):
    if s.is_abstract:
        return s.ghost_view
    return s.chunk[s.chunkOffset:] + norm(buffered(s) + s.src_rest)


def first_or_none(t):
    return None if t == "" else t[0]


def is_lead_surrogate(c):
    return len(c) == 1 and 0xD800 <= code(c) and code(c) <= 0xDBFF


def inv(s):
    """representation invariant of HTMLUnicodeInputStream"""
    return (s.chunkSize == len(s.chunk) and 0 <= s.chunkOffset and s.chunkOffset <= s.chunkSize
            and "\r" not in s.chunk
            and (s._bufferedCharacter is None or s._bufferedCharacter == "\r" or is_lead_surrogate(s._bufferedCharacter)))


# ---- lemmas about newline normalisation (assumed; exercised natively on every replay and by the bounded
# ---- lemma check of the thorough tier: all strings over {a, CR, LF} up to length 8) ----------------------
def split_safe(a, b):
    """normalisation distributes over a split that does not cut a CR LF pair"""
    return assume_lemma("split_safe", implies(not (a.endswith("\r") and b.startswith("\n")),
                                              norm(a + b) == norm(a) + norm(b)))


def norm_basics(a):
    """norm('') == '', norm of CR-free text is the text, the result is CR-free, single CR -> LF"""
    return assume_lemma("norm_basics", norm("") == "" and implies("\r" not in a, norm(a) == a)
                        and "\r" not in norm(a) and norm("\r") == "\n" and implies(a != "", norm(a) != ""))

"""The input-stream interface the tokenizer is verified against and HTMLUnicodeInputStream is
verified to implement.  `view(s)` is the normalised text that remains to be delivered.

For an *abstract* stream (tokenizer-side proofs) the view is a ghost field; for the real object it is
a function of its fields and of the ghost `src_rest` (the unread characters of the underlying source):
    chunk[chunkOffset:] + norm(buffered + src_rest)
"""
from pyvc.contract import in_chars, no_chars


def norm(t):
    """newline normalisation: the code's own two replace calls"""
    return t.replace("\r\n", "\n").replace("\r", "\n")


def buffered(s):
    return s._bufferedCharacter if s._bufferedCharacter else ""


def view(s):
    if s.is_abstract:
        return s.ghost_view
    return s.chunk[s.chunkOffset:] + norm(buffered(s) + s.src_rest)


def first_or_none(t):
    return None if t == "" else t[0]
